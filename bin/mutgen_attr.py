#!/usr/bin/env python3
"""mutgen_attr.py <out.jsonl>: first-order mutants inside the logic-carrying deku attribute strings (map = "...",
id_pat = "...", assert_eq = "...") that bin/mutgen.py masks as string literals. Ids q#####."""
import json, re, sys
FILES = ['libadsb_deku/src/adsb.rs', 'libadsb_deku/src/bds.rs', 'libadsb_deku/src/lib.rs']
n = 0
out = open(sys.argv[1], 'w')
for f in FILES:
    lines = open('/repo/' + f).read().split('\n')
    for i, ln in enumerate(lines):
        if ln.strip().startswith('//') or 'cfg(rsadsb_adsb_deku_verif)' in ln:
            if 'cfg(rsadsb_adsb_deku_verif)' in ln:
                break
            continue
        for m in re.finditer(r'(map|id_pat|assert_eq) = "((?:[^"\\]|\\.)*)"', ln):
            a0, s = m.start(2), m.group(2)
            muts = []
            for k in re.finditer(r'(?<![\w.])(0x[0-9a-fA-F]+|\d+\.\d+|\d+)(?![\w]|\.\d)', s):
                tok = k.group(1)
                if tok.startswith('0x'):
                    v = int(tok, 16)
                    reps = ['0x%0*x' % (len(tok) - 2, r) for r in {v + 1, max(0, v - 1)} - {v}]
                elif '.' in tok:
                    v = float(tok)
                    reps = [repr(v + 1.0), repr(v * 1.01)]
                else:
                    v = int(tok)
                    reps = [str(r) for r in {v + 1, max(0, v - 1)} - {v}]
                for r in reps:
                    muts.append((a0 + k.start(1), a0 + k.end(1), r))
            if m.group(1) == 'map':
                for k in re.finditer(r' (>=|<=|==|!=|>|<|\+|-|\*|/) ', s):
                    op = k.group(1)
                    rep = {'>': '>=', '<': '<=', '>=': '>', '<=': '<', '==': '!=', '!=': '==', '+': '-', '-': '+', '*': '/', '/': '*'}[op]
                    muts.append((a0 + k.start(1), a0 + k.end(1), rep))
                for k in re.finditer(r'\)(\*) ', s):
                    muts.append((a0 + k.start(1), a0 + k.end(1), '/'))
            for (a, b, r) in muts:
                n += 1
                out.write(json.dumps({'id': 'q%05d' % n, 'file': f, 'line': i + 1, 'col': a, 'kind': 'attr-' + m.group(1), 'orig': ln[a:b], 'repl': r,
                                      'old_line': ln, 'new_line': ln[:a] + r + ln[b:]}) + '\n')
print('mutants:', n)
