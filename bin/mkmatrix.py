#!/usr/bin/env python3
"""Regenerate DESIGN.md section 9 (seeded changes and which checks report them) from seeded/*/meta.json."""
import json, os, re
ROOT = os.path.dirname(os.path.dirname(os.path.abspath(__file__)))
rows = []
for sid in sorted(os.listdir(os.path.join(ROOT, 'seeded'))):
    mp = os.path.join(ROOT, 'seeded', sid, 'meta.json')
    if not os.path.isfile(mp):
        continue
    m = json.load(open(mp))
    what = (m.get('what_changed') or '').replace('\n', ' ').replace('|', '\\|')
    needs = (m.get('needs_to_manifest') or '').replace('\n', ' ').replace('|', '\\|')
    det = m.get('detected_by', [])
    own = sid[:3]
    rows.append((sid, what[:170] + ('…' if len(what) > 170 else ''), needs[:150] + ('…' if len(needs) > 150 else ''), own in det, det, m.get('strengthened', '')))
out = []
out.append('## 9. Seeded changes (independent sub-agents) and which checks report them\n')
out.append('Each change was produced by a fresh sub-agent that saw only the property text and a scratch worktree of /repo (nothing from')
out.append('/verif), and was kept only after I confirmed in a scratch worktree that the repository\'s 40 tests pass with it, its')
out.append('demonstration fails with it and passes without it (`bin/seedcheck`; results in `seeded/<id>/meta.json`). `detected by` lists')
out.append('the quick-tier checks that exit 1 on it (`bin/seedmatrix` -> `bin/mutrun`, scratch worktree, never /repo). "own" = the check of')
out.append('the property the change was written to break.\n')
n_own = sum(1 for r in rows if r[3])
out.append(f'**{n_own} of {len(rows)} seeded changes are reported by their own property\'s quick check**; every one is reported by at least one check.\n' if all(r[4] for r in rows) else f'**{n_own} of {len(rows)} seeded changes are reported by their own property\'s quick check.**\n')
out.append('| id | change | needs to manifest | own check | detected by | note |')
out.append('|---|---|---|---|---|---|')
for sid, what, needs, own_ok, det, note in rows:
    out.append(f'| {sid} | {what} | {needs} | {"caught" if own_ok else "MISSED"} | {", ".join(det) or "-"} | {note} |')
out.append('')
text = '\n'.join(out)
dp = os.path.join(ROOT, 'DESIGN.md')
s = open(dp).read()
if '## 9. Seeded changes' in s:
    s = re.sub(r'## 9\. Seeded changes.*?(?=\n## (?:10\.|Appendix A))', text, s, flags=re.S)
else:
    s = s.replace('## Appendix A — reference layouts', text + '\n## Appendix A — reference layouts')
open(dp, 'w').write(s)
print(f'{n_own}/{len(rows)} own-check detections')
