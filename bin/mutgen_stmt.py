#!/usr/bin/env python3
"""mutgen_stmt.py <out.jsonl> [--apps]: statement-deletion mutants (one single-line statement commented out). Ids s##### / t#####.
Skipped: declarations (let / use / const / ...), returns, log macros, attributes, test modules, the verification hooks."""
import json, re, sys
LIB = ['libadsb_deku/src/adsb.rs', 'libadsb_deku/src/bds.rs', 'libadsb_deku/src/cpr.rs', 'libadsb_deku/src/crc.rs',
       'libadsb_deku/src/lib.rs', 'libadsb_deku/src/mode_ac.rs', 'rsadsb_common/src/lib.rs']
APPS = ['apps/src/1090/1090.rs', 'apps/src/radar/radar.rs', 'apps/src/radar/airplanes.rs', 'apps/src/radar/map.rs',
        'apps/src/radar/stats.rs', 'apps/src/radar/cli.rs']
apps = '--apps' in sys.argv
SKIP = ('let ', 'use ', 'pub ', 'const ', '#[', '#![', 'return', '}', 'type ', 'mod ', 'static ', 'extern ', '//', 'info!', 'debug!', 'warn!',
        'error!', 'trace!', 'break', 'continue', 'fn ', 'impl', 'struct', 'enum', '.', ')', ']', '|', '&', '+', '-', '*', '?', 'Ok(', 'Err(', 'Some(', 'None')
n = 0
out = open(sys.argv[1], 'w')
for f in (APPS if apps else LIB):
    lines = open('/repo/' + f).read().split('\n')
    in_block = False
    for i, ln in enumerate(lines):
        s = ln.strip()
        if s.startswith('#[cfg(test)]') or 'cfg(rsadsb_adsb_deku_verif)' in ln:
            break
        if in_block:
            if '*/' in ln:
                in_block = False
            continue
        if s.startswith('/*'):
            if '*/' not in ln:
                in_block = True
            continue
        if not s.endswith(';') or s.startswith(SKIP):
            continue
        if s.count('(') != s.count(')') or s.count('{') != s.count('}') or s.count('[') != s.count(']'):
            continue
        # the previous line must end a statement / open a block (so the line is a whole statement)
        j = i - 1
        while j >= 0 and (not lines[j].strip() or lines[j].strip().startswith('//')):
            j -= 1
        prev = lines[j].strip() if j >= 0 else ''
        if not (prev.endswith(';') or prev.endswith('{') or prev.endswith('}') or prev.endswith('=> {')):
            continue
        n += 1
        indent = ln[:len(ln) - len(ln.lstrip())]
        out.write(json.dumps({'id': ('t%05d' if apps else 's%05d') % n, 'file': f, 'line': i + 1, 'col': 0, 'kind': 'stmt-del', 'orig': s[:60], 'repl': '',
                              'old_line': ln, 'new_line': indent + '// (deleted) ' + s}) + '\n')
print('mutants:', n)
