#!/usr/bin/env python3
"""mutpatch.py <mutant-id> [out.diff]: write the campaign mutant as a patch (for bin/mutrun)"""
import glob, json, subprocess, sys, tempfile, os, shutil
mid = sys.argv[1]
out = sys.argv[2] if len(sys.argv) > 2 else '/tmp/%s.diff' % mid
for f in glob.glob('/verif/campaign/mutants*.jsonl'):
    for l in open(f):
        m = json.loads(l)
        if m['id'] == mid:
            src = open('/repo/' + m['file']).read().split('\n')
            assert src[m['line'] - 1] == m['old_line'], 'stale mutant'
            new = list(src)
            new[m['line'] - 1] = m['new_line']
            d = tempfile.mkdtemp()
            a, b = os.path.join(d, 'a'), os.path.join(d, 'b')
            open(a, 'w').write('\n'.join(src)); open(b, 'w').write('\n'.join(new))
            r = subprocess.run(['diff', '-u', '--label', 'a/' + m['file'], '--label', 'b/' + m['file'], a, b], stdout=subprocess.PIPE, text=True)
            open(out, 'w').write(r.stdout)
            shutil.rmtree(d)
            print(out)
            sys.exit(0)
sys.exit('unknown mutant ' + mid)
