#!/usr/bin/env python3
"""mutcampaign.py <mutants.jsonl> <results.jsonl> [--workers K] [--only FILE-SUBSTR] [--stride N --offset I]

Systematic first-order mutation campaign against the quick checks (gap finder for the machinery, not a registered check):
every mutant from bin/mutgen.py is applied to a scratch worktree of /repo (never /repo itself), the harness is rebuilt
against it and the quick checks are run in an order chosen per source file until one reports a VIOLATION (rc 1).
Result per mutant: nobuild | killed(by) | survived | machinery.  Results are appended, finished ids are skipped on restart.
Scratch: /tmp/vcamp/w<k> (worktree + harness copy), build output /verif/target/camp<k>; removed with --clean."""
import json, os, shutil, subprocess, sys, threading, time, queue

ORDER = {
    'adsb.rs': ['C10', 'C07', 'C08', 'C09', 'C06', 'C04', 'C02', 'C11', 'C01', 'C03', 'C05', 'C19', 'C12', 'C13', 'C14', 'C15'],
    'bds.rs': ['C10', 'C08', 'C04', 'C02', 'C11', 'C01', 'C06', 'C07', 'C09', 'C03', 'C05', 'C19', 'C12', 'C13', 'C14', 'C15'],
    'cpr.rs': ['C05', 'C13', 'C14', 'C01', 'C12', 'C15', 'C02', 'C04', 'C10', 'C11', 'C06', 'C07', 'C08', 'C09', 'C03', 'C19'],
    'crc.rs': ['C03', 'C02', 'C19', 'C01', 'C04', 'C10', 'C11', 'C06', 'C07', 'C08', 'C09', 'C05', 'C12', 'C13', 'C14', 'C15'],
    'lib.rs': ['C04', 'C02', 'C06', 'C09', 'C08', 'C10', 'C07', 'C11', 'C03', 'C19', 'C01', 'C05', 'C12', 'C13', 'C14', 'C15'],
    'mode_ac.rs': ['C06', 'C09', 'C04', 'C02', 'C11', 'C01', 'C10', 'C07', 'C08', 'C03', 'C05', 'C19', 'C12', 'C13', 'C14', 'C15'],
    'common': ['C12', 'C13', 'C14', 'C15', 'C01', 'C05', 'C02', 'C04', 'C10', 'C11', 'C06', 'C07', 'C08', 'C09', 'C03', 'C19'],
}
E4_ORDER = {'1090.rs': ['C16'], 'radar.rs': ['C17', 'C18', 'C16'], 'airplanes.rs': ['C18', 'C17', 'C16'], 'map.rs': ['C18', 'C17'],
            'stats.rs': ['C18', 'C17', 'C16'], 'cli.rs': ['C17', 'C18', 'C16'], 'coverage.rs': ['C17', 'C18'], 'airport.rs': ['C18', 'C17'],
            'help.rs': ['C17', 'C18']}
CHECK_TIMEOUT = 420


def sh(cmd, **kw):
    return subprocess.run(cmd, shell=True, stdout=subprocess.PIPE, stderr=subprocess.STDOUT, text=True, **kw)


def setup_worker(k):
    W = '/tmp/vcamp/w%d' % k
    os.makedirs(W, exist_ok=True)
    if not os.path.isdir(W + '/repo'):
        sh('git -C /repo worktree prune')
        r = sh('git -C /repo worktree add --detach %s/repo HEAD' % W)
        if r.returncode != 0:
            raise SystemExit('worktree failed: ' + r.stdout)
    else:
        sh('git -C %s/repo checkout -- .' % W)
    shutil.rmtree(W + '/harness', ignore_errors=True)
    os.makedirs(W + '/harness')
    for n in ('src', '.cargo'):
        shutil.copytree('/verif/harness/' + n, W + '/harness/' + n)
    for n in ('Cargo.toml', 'Cargo.lock'):
        shutil.copy('/verif/harness/' + n, W + '/harness/' + n)
    sh("sed -i 's#/repo/#%s/repo/#g' %s/harness/Cargo.toml" % (W, W))
    return W


def run_one(k, W, m, log):
    T = '/verif/target/camp%d' % k
    path = '%s/repo/%s' % (W, m['file'])
    orig = open(path).read()
    lines = orig.split('\n')
    if lines[m['line'] - 1] != m['old_line']:
        return {'id': m['id'], 'result': 'stale-mutant'}
    lines[m['line'] - 1] = m['new_line']
    open(path, 'w').write('\n'.join(lines))
    res = {'id': m['id'], 'file': m['file'], 'line': m['line'], 'kind': m['kind'], 'orig': m['orig'], 'repl': m['repl'], 'new_line': m['new_line'].strip()}
    t0 = time.time()
    try:
        if m['file'].startswith('apps/'):
            return run_e4(k, W, m, res, t0)
        b = sh('cd %s/harness && CARGO_TARGET_DIR=%s cargo build --release --offline' % (W, T))
        res['build_s'] = round(time.time() - t0, 1)
        if b.returncode != 0:
            res['result'] = 'nobuild'
            return res
        key = 'common' if 'rsadsb_common' in m['file'] else os.path.basename(m['file'])
        out = W + '/out'
        shutil.rmtree(out, ignore_errors=True)
        os.makedirs(out)
        shutil.copy('/verif/known_findings.json', out)
        if os.path.isdir('/verif/known_findings'):
            shutil.copytree('/verif/known_findings', out + '/known_findings')
        res['ran'] = []
        res['result'] = 'survived'
        env = dict(os.environ, VERIF_ROOT=out, VERIF_REPO=W + '/repo', RAYON_NUM_THREADS='6')
        for c in ORDER[key]:
            t1 = time.time()
            try:
                r = subprocess.run([T + '/release/vh', c, 'quick'], env=env, stdout=subprocess.PIPE, stderr=subprocess.STDOUT, text=True, timeout=CHECK_TIMEOUT)
                rc, txt = r.returncode, r.stdout
            except subprocess.TimeoutExpired:
                rc, txt = 1, 'TIMEOUT (hang) after %ds' % CHECK_TIMEOUT
            res['ran'].append([c, rc, round(time.time() - t1, 1)])
            if rc == 1:
                first = [l for l in txt.split('\n') if 'class=' in l or 'TIMEOUT' in l][:1]
                res['result'] = 'killed'
                res['by'] = c
                res['first'] = (first[0].strip()[:300] if first else '')
                break
            if rc != 0:
                res.setdefault('machinery', []).append([c, rc, txt[-300:]])
        return res
    finally:
        open(path, 'w').write(orig)
        res['wall_s'] = round(time.time() - t0, 1)


def run_e4(k, W, m, res, t0):
    TA = '/verif/target/camp%d-apps' % k
    out = W + '/out'
    shutil.rmtree(out, ignore_errors=True)
    os.makedirs(out)
    shutil.copy('/verif/known_findings.json', out)
    env = dict(os.environ, VERIF_REPO=W + '/repo', E4_TARGET_DIR=TA, E4_VH='/verif/target/h/release/vh', E4_OUT_DIR=out,
               VERIF_KF_FILE=out + '/known_findings.json')
    b = subprocess.run(['bash', '/verif/apps/build.sh'], env=env, stdout=subprocess.PIPE, stderr=subprocess.STDOUT, text=True)
    res['build_s'] = round(time.time() - t0, 1)
    if b.returncode != 0:
        res['result'] = 'nobuild'
        return res
    res['ran'] = []
    res['result'] = 'survived'
    for c in E4_ORDER[os.path.basename(m['file'])]:
        t1 = time.time()
        try:
            r = subprocess.run(['python3', '/verif/apps/e4.py', c, '--tier', 'quick'], env=env, stdout=subprocess.PIPE, stderr=subprocess.STDOUT, text=True, timeout=1500)
            rc, txt = r.returncode, r.stdout
        except subprocess.TimeoutExpired:
            rc, txt = 2, 'TIMEOUT'
        res['ran'].append([c, rc, round(time.time() - t1, 1)])
        if rc == 1:
            first = [l for l in txt.split('\n') if 'class=' in l][:1]
            res['result'] = 'killed'
            res['by'] = c
            res['first'] = (first[0].strip()[:300] if first else '')
            break
        if rc != 0:
            res.setdefault('machinery', []).append([c, rc, txt[-300:]])
    return res


def main():
    a = sys.argv[1:]
    mutfile, resfile = a[0], a[1]
    K = int(a[a.index('--workers') + 1]) if '--workers' in a else 4
    base = int(a[a.index('--base') + 1]) if '--base' in a else 0
    only = a[a.index('--only') + 1] if '--only' in a else None
    stride = int(a[a.index('--stride') + 1]) if '--stride' in a else 1
    offset = int(a[a.index('--offset') + 1]) if '--offset' in a else 0
    if '--clean' in a:
        for k in range(16):
            W = '/tmp/vcamp/w%d' % k
            if os.path.isdir(W + '/repo'):
                sh('git -C /repo worktree remove --force %s/repo' % W)
            shutil.rmtree('/verif/target/camp%d' % k, ignore_errors=True)
            shutil.rmtree('/verif/target/camp%d-apps' % k, ignore_errors=True)
        shutil.rmtree('/tmp/vcamp', ignore_errors=True)
        sh('git -C /repo worktree prune')
        return
    muts = [json.loads(l) for l in open(mutfile)]
    if only:
        muts = [m for m in muts if only in m['file']]
    import hashlib
    muts.sort(key=lambda m: hashlib.md5(m['id'].encode()).hexdigest())     # fixed interleaving of files: partial results are representative
    muts = muts[offset::stride]
    if '--reverse' in a:
        muts.reverse()
    done = set()
    if os.path.exists(resfile):
        for l in open(resfile):
            try:
                done.add(json.loads(l)['id'])
            except Exception:
                pass
    if '--ids' in a:
        ids = set(a[a.index('--ids') + 1].split(','))
        allm = [json.loads(l) for l in open(mutfile)]
        muts = [m for m in allm if m['id'] in ids]
        done = set()
    todo = [m for m in muts if m['id'] not in done]
    print('mutants %d, done %d, todo %d, workers %d' % (len(muts), len(done), len(todo), K), flush=True)
    q = queue.Queue()
    for m in todo:
        q.put(m)
    lock = threading.Lock()
    out = open(resfile, 'a')

    def worker(k):
        W = setup_worker(k)
        while True:
            if os.path.exists('/tmp/vcamp/STOP'):
                return
            try:
                m = q.get_nowait()
            except queue.Empty:
                return
            if '--ids' not in a and any(('"id": "%s"' % m['id']) in l for l in open(resfile)):
                continue        # finished meanwhile by another campaign process working on the same list
            try:
                r = run_one(k, W, m, None)
            except Exception as e:      # noqa
                r = {'id': m['id'], 'result': 'machinery', 'error': repr(e)}
            with lock:
                out.write(json.dumps(r) + '\n')
                out.flush()
                print('%s %s:%d %s %r->%r => %s %s' % (r['id'], m['file'].split('/')[-1], m['line'], m['kind'], m['orig'], m['repl'], r.get('result'), r.get('by', '')), flush=True)

    ts = [threading.Thread(target=worker, args=(base + k,)) for k in range(K)]
    for t in ts:
        t.start()
    for t in ts:
        t.join()
    print('CAMPAIGN-DONE', flush=True)


main()
