#!/usr/bin/env python3
"""Regenerate /verif/MANIFEST.json from the table below (kept here so the manifest stays valid)."""
import json, os, subprocess
ROOT = os.path.dirname(os.path.dirname(os.path.abspath(__file__)))

E1_NOTE = ("trusted: rustc, the reference bit-slice decoder (DESIGN.md App. A layouts, validated against the repository's pinned "
           "vectors), the structural assumption that readers are fixed-width and dispatch depends on DF/TC/subtype/BDS id only (probed by bit-walks)")

CLAIMS = {
 "C01": dict(cat="exploration", tech="exhaustive enumeration (all byte strings of length 0..=3, 32 DF x lengths x contexts x bit-walk, the union lattice of C02-C11, all ordered pairs of a CPR report alphabet, 3-frame tracker histories x receiver/range alphabet) with every operation under catch_unwind, an allocation meter and a stall watchdog; log arguments evaluated (tracing subscriber enabling every level); receiver at the exact antipode of / at 1200 decoded positions; periodic tracker histories of 1500 / 3000 events and single-address histories of 70 000 (quick) / 270 000 (thorough) events",
             text="totality monitor over the union of all decoder lattices plus the complete space of short byte strings; panics, stalls and allocation above 4 KiB per decode are violations", ref="3 C01", note=E1_NOTE + "; the global-allocator meter counts bytes requested per decode on the calling thread"),
 "C02": dict(cat="exploration", tech="exhaustive enumeration of 32 DF codes x buffer lengths 0..=32 x contexts x garbage tails and of every dispatch leaf (bit-walk, field sweeps) on the real decoder vs reference acceptance predicate; exact-vs-extended differential",
             text="acceptance set, length discipline and tail-independence decided on every format code, every length and every dispatch leaf under a context alphabet; payload bits beyond the alphabet are not enumerated", ref="3 C02", note=E1_NOTE),
 "C03": dict(cat="model_checking", tech="explicit-state enumeration of the checksum automaton's complete transition relation (2^24 remainders x 256 bytes, thorough; 2^20 three-byte prefixes, quick) on the real function via hook vs bit-serial division; exhaustive error-pattern enumeration (weight<=5, bursts<=24); Frame.crc on every dispatch leaf, also through fragmenting / interrupting readers and readers positioned at an offset",
             text="complete transition relation of the table-driven remainder automaton => equality with polynomial division for all frames by induction on length; public-API checksum on every seek pattern; exhaustive low-weight/burst error patterns", ref="3 C03",
             note="trusted: bit-serial reference division; the hook re-exposes the private function unchanged; induction over length assumes the loop is a fold of one step (probed at n=7 and n=14)"),
 "C07": dict(cat="exploration", tech="exhaustive enumeration of the velocity payload lattice (all field values, joint (dir,vel,dir,vel) sweep, all 2^11 vertical-rate codes) on the real decoder and calculate() vs reference arithmetic",
             text="fields complete per field; derived velocity complete over the 2^22 joint space in the thorough tier (boundary+stride quick) and all rate codes", ref="3 C07", note=E1_NOTE),
 "C04": dict(cat="exploration", tech="exhaustive bounded enumeration of the input lattice (per dispatch leaf: bit-walk, full field sweeps, boundary pairs, contexts) on the real decoder vs reference bit-slice decoder; all 2^24 addresses for the text round trip",
             text="every header/address/trailing field of every dispatch leaf compared with an independent bit-slice reference on a closed lattice of inputs; complete over each field up to 13/17 bits and over all 2^24 address texts", ref="3 C04", note=E1_NOTE),
 "C05": dict(cat="exploration", tech="exhaustive enumeration of the raw CPR input lattice on the real get_position vs independent encoder/decoder: all 2^34 latitude pairs x both orders (thorough), NL at every reachable zone latitude, truth lattice around every boundary, raw longitude space around every m boundary",
             text="latitude decoding and NL complete over all raw inputs (thorough); longitude and truth checks complete over a boundary lattice (every NL transition, zone boundary, pole, antimeridian +- steps x displacements x both orders)", ref="3 C05",
             note="trusted: the reference CPR encoder/decoder (closed-formula NL, validated against the published vector and the 58 transition latitudes); NL at exactly +-87 deg accepts both readings; not all 2^68 quadruples are enumerated"),
 "C06": dict(cat="exploration", tech="exhaustive enumeration of all 8192/4096 altitude codes in every carrier x contexts x bit-walk on the real decoder vs Gillham table built from the definition",
             text="complete over the altitude field in every carrying format, under a context alphabet for the surrounding bits", ref="3 C06", note=E1_NOTE),
 "C08": dict(cat="exploration", tech="exhaustive enumeration of every 6-bit code at every character position (and position pairs) in both carriers on the real decoder vs Annex 10 character table",
             text="complete per character position and per pair of positions; 64^8 strings are covered only through that per-position structure", ref="3 C08", note=E1_NOTE),
 "C09": dict(cat="exploration", tech="exhaustive enumeration of all 8192 identity codes in the three carriers x contexts on the real decoder vs named-bit reference de-interleaver",
             text="complete over the identity field and the subtype/emergency fields in every carrier", ref="3 C09", note=E1_NOTE),
 "C10": dict(cat="exploration", tech="exhaustive bounded enumeration of the payload lattice (every value of every field, bit-walk, boundary pairs, contexts) per TC/subtype/BDS leaf under DF17/18/20/21 on the real decoder vs DO-260B field tables",
             text="every interpreted payload field complete over its domain (<=13 bits quick, <=17 bits thorough) under the context alphabet; dispatch by TC/subtype checked on every case", ref="3 C10", note=E1_NOTE),
 "C11": dict(cat="exploration", tech="exhaustive enumeration of the renderer's branch space through the E1 lattice (every leaf, every field value, every enum word) on the real Display impl vs reference templates filled from the decoded values",
             text="every renderer branch condition driven to both sides and every enum word enumerated; rendering compared line by line with an independent template instantiated from the frame's own decoded values; reference validated on the 44 pinned strings of the repository", ref="3 C11", note=E1_NOTE + "; templates without a pinned string are golden from the pinned tree"),
}

E2_NOTE = ("trusted: stateright 0.31 (bounded DFS with the depth in the state key; cross-checked against BFS counts on every C12 run); the harness's clock_gettime interposition (self-tested each run); the reference tracker; exact haversine; "
           "depth-bounded (no fixpoint) plus periodic (lasso) histories: every word of period <= 2-3 repeated to 1200-3000 events; oracles are evaluated on every generated state inside next_state (stateright itself skips the deepest level)")
for _pid, _ref, _txt in [
  ("C12", "3 C12", "all histories up to depth 4 (quick) / 5 (thorough) over a 37-letter frame alphabet (2-3 addresses x payload classes, DF18 with foreign PI, eight non-ES formats): key set, Added, message counts, non-ES no-ops, record isolation checked on every reachable state; an expiry model (accounting letters x prune, one second per event) for 'the tracked set shrinks only through expiry', explored a second time path by path (history in the state key: 177 156 paths of length <= 5, thorough <= 6) so that state the public API cannot show cannot hide behind a merge; a model over all 32 type codes from address 000000 and a1; the receiver at 0N 0E; 1300 simultaneous addresses"),
  ("C13", "3 C13", "all histories up to depth 4-6 (7 quick / 9 thorough on a single-aircraft sub-alphabet) of even/odd reports from a flight, range-boundary, jump-boundary (polar NL=1), garbage, second-aircraft and receiver-move letters, several receivers/ranges, 1 s and 100 s per event, polar models on the +-90 deg zone latitudes, every carrier (DF17 / DF18 x barometric / GNSS height), pairs 20 m on either side of every NL transition, longitude rounding ties: published position, clearing, distance, the pairing itself against the independent reference decoder"),
  ("C14", "3 C14", "same state spaces plus identification/velocity letters: latest-wins attributes, details/all_position/Display views, distance-iff-position, track = superseded publications in order (periodic histories with > 1100 required entries); altitude codes incl. 0 ft; an aircraft at exactly 0N 0E; a velocity sub-model whose letters are exactly one derived attribute apart (vertical rate only / track only / speed only)"),
  ("C15", "3 C15", "all interleavings up to depth 6 (quick) / 9 (thorough) of frames (identification, velocity, positions, unhandled types, DF18, non-ES), waits {1 ns, 0.4T, 0.6T, T-1ns, T} and prune(T), T in {0, 1, 10} and prune(u64::MAX): exact expiry set, untouched survivors, fresh record on re-appearance; thresholds 3600 / 5 / 1 / 0 mixed in one alphabet, path by path to depth 6 (7)"),
]:
    CLAIMS[_pid] = dict(cat="model_checking", engine="E2-tracker",
        tech="explicit-state model checking (stateright bounded DFS, depth in the state key) of the real Airplanes::action/prune, one event per transition under a virtual clock, against a reference tracker; every transition executes the implementation; plus exhaustive enumeration of periodic histories (all words up to period 2-3, repeated to 1200-3000 events)",
        text=_txt, ref=_ref, note=E2_NOTE)

CLAIMS["C19"] = dict(cat="fault_enumeration", engine="E3-reader",
    tech="deviation-bounded exhaustive enumeration of environment schedules (all subsets of read calls preceded by Interrupted, all split sizes, <=3 mixed deviations, one-byte delivery with 1-2 Interrupted, Interrupted bursts, readers starting at an offset) of a scripted Read+Seek against the real from_reader, per distinct read/seek pattern; from_reader == from_bytes",
    text="every distinct read/seek pattern of the decoder under every placement of transient errors (all 2^R subsets in the thorough tier) and every short-read split; purity over all ordered triples", ref="3 C19",
    note="trusted: the scripted reader obeys the Read/Seek contracts; std build only (std::io read_exact/read_to_end retry semantics)")
CLAIMS["C20"] = dict(cat="exploration", engine="E1-lattice",
    tech="exhaustive differential enumeration: one fixed case list (E1 lattice, CPR lattice, all tracker histories to depth 3/4) rendered by the same code compiled against std+serde, std and alloc-only builds of the subject, compared record by record; CPR pairs on the rounding ties of the zone indices, 600-event periodic histories; serde_json + CBOR round trip of every decoded frame and tracker state",
    text="2.1 M records per configuration compared exactly; every decoded frame of the lattice and every history's tracker state round-tripped through two serde formats", ref="3 C20",
    note="trusted: rustc/cargo feature resolution (separate cargo invocations per feature set); std-only timestamps excluded; the case list, not all inputs")

E4_NOTE = ("trusted: the pty/TCP driver (causal synchronisation on /proc io counters, TIOCOUTQ and ratatui's per-draw cursor-hide heartbeat; no verdict on a bare sleep except the 250 ms gap class and the 1.6 s expiry wait with guard bands), the VT screen model, "
           "the helper `vh feed2table` (real decoder + real tracker) as the table oracle; every violating script is replayed twice before it is reported, disagreeing replays are machinery errors")
CLAIMS["C16"] = dict(cat="fault_enumeration", engine="E4-apps",
    tech="exhaustive enumeration of feed schedules on the real radar and 1090 binaries: every cut position of a 3-line feed (<=1 cut quick, <=2 thorough) with a timeout gap, a malformed-line alphabet at every feed position in two timings, every disconnect point with retry on/off, orderly (FIN) and abortive (RST) close; every DF17 capability value with / without --limit-parsing",
    text="all segmentations within the bound, all alphabet lines at all positions, all disconnect points; oracle = echoed payload sequence followed by the library's rendering of each frame (1090) / per-aircraft message counts vs the tracker library (radar)", ref="3 C16", note=E4_NOTE)
CLAIMS["C17"] = dict(cat="model_checking", engine="E4-apps",
    tech="stateless bounded-depth model checking of the real radar binary under a pty: all event sequences up to depth 1-4 over the key/mouse/resize/traffic alphabet x delivery mode x terminal sizes x tracked-set contexts x option sets; CLI value alphabet",
    text="every sequence within the bound executed on the real process; oracle = alive until quit, exit 0, no panic text, termios restored, mouse reporting off, cursor shown; a quit request is honoured even while the feed is silent; invalid CLI values -> usage error", ref="3 C17", note=E4_NOTE)
CLAIMS["C18"] = dict(cat="model_checking", engine="E4-apps",
    tech="stateless bounded-depth model checking of the real radar binary with screen reconstruction: all view-control sequences up to depth 2 (quick) / 3 (thorough) over feeds with aircraft and locations in all four quadrants, two receivers (one next to the prime meridian), traffic arriving after the view controls, expiry with a returning address and with a silent feed",
    text="Airplanes tab cells and counters vs the real tracker library fed with the same lines (feeds of 1, 2, 3 and 21 aircraft; row capacity, columns and number of decimals read off the screen); map geometry (order, 2:1 ratio); view sequences leave the data tab cell-for-cell unchanged and reset restores the initial map", ref="3 C18", note=E4_NOTE)

NOT_YET = {
}

def main():
    props = [json.loads(l) for l in open(os.path.join(ROOT, "properties.jsonl"))]
    checks, na = [], []
    for p in props:
        pid = p["id"]
        c = CLAIMS.get(pid)
        if c is None:
            na.append({"property_id": pid, "reason": NOT_YET.get(pid, "check not built yet in this round (planned: see DESIGN.md section 3); no claim is made")})
            continue
        checks.append({
            "property_id": pid,
            "quick_cmd": f"bin/vcheck {pid} --tier quick",
            "thorough_cmd": f"bin/vcheck {pid} --tier thorough",
            "evidence_file": f"/verif/evidence/{pid}.json",
            "replay_cmd_template": "bin/vcheck replay {path}",
            "engine": c.get("engine", "E1-lattice"),
            "level_claimed": {"category": c["cat"], "text": c["text"], "design_ref": "DESIGN.md section " + c["ref"]},
            "level_note": c["note"],
            "technique": c["tech"],
        })
    hooks_commits = subprocess.run(["git", "-C", "/repo", "log", "--format=%h %s", "--grep=^verif hooks"], capture_output=True, text=True).stdout.strip().splitlines()
    m = {
        "version": 1,
        "setup_cmd": "bin/vcheck setup",
        "hooks": {
            "guard": "--cfg rsadsb_adsb_deku_verif",
            "enable": "RUSTFLAGS=--cfg rsadsb_adsb_deku_verif via /verif/harness/.cargo/config.toml (build.rustflags); the harness depends on /repo/libadsb_deku and /repo/rsadsb_common by path, so every check rebuilds from /repo's working tree",
            "baseline_off_cmd": "cd /repo && cargo nextest run --workspace --no-fail-fast --offline",
            "source_commits": [h.split()[0] for h in hooks_commits],
            "add_only": True,
        },
        "engines": [
            {"name": "E1-lattice", "path": "harness/src/e1.rs", "serves_properties": ["C01","C02","C03","C04","C05","C06","C07","C08","C09","C10","C11"], "kind_free_text": "exhaustive input-lattice explorer over the real decoder with reference bit-slice decoder"},
            {"name": "E2-tracker", "path": "harness/src/e2.rs", "serves_properties": ["C12","C13","C14","C15"], "kind_free_text": "stateright explicit-state search (bounded DFS / BFS) over the real Airplanes tracker with a reference tracker and virtual clock"},
            {"name": "E3-reader", "path": "harness/src/e3.rs", "serves_properties": ["C19"], "kind_free_text": "deviation-bounded environment-schedule explorer for Read+Seek"},
            {"name": "E4-apps", "path": "apps/e4.py", "serves_properties": ["C16","C17","C18"], "kind_free_text": "black-box pty/TCP explorer of the real radar and 1090 binaries"},
        ],
        "checks": checks,
        "not_applicable": na,
        "notes": "exit 0 = held (KNOWN-FINDING lines allowed), 1 = VIOLATION, 2 = machinery failure. Known findings: /verif/known_findings.json (+ known_findings/*.keys).",
    }
    json.dump(m, open(os.path.join(ROOT, "MANIFEST.json"), "w"), indent=1)
    print("checks:", [c["property_id"] for c in checks], "not_applicable:", [n["property_id"] for n in na])

main()
