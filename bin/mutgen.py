#!/usr/bin/env python3
"""mutgen.py <out.jsonl>: enumerate first-order mutants of the decoder and tracker sources in /repo.

Every site x operator is listed once (an enumeration, not a sample): integer / float literals +-1, `bits = "N"` widths +-1,
enum id values, relational / arithmetic / boolean operator swaps, negation removal, `Some(x)`-style constant swaps are left
out. Test modules, comments, doc comments and the verification hooks are skipped. Each mutant is one replaced span on one line."""
import json, re, sys

FILES = ['libadsb_deku/src/adsb.rs', 'libadsb_deku/src/bds.rs', 'libadsb_deku/src/cpr.rs', 'libadsb_deku/src/crc.rs',
         'libadsb_deku/src/lib.rs', 'libadsb_deku/src/mode_ac.rs', 'rsadsb_common/src/lib.rs']
APP_FILES = ['apps/src/1090/1090.rs', 'apps/src/radar/radar.rs', 'apps/src/radar/airplanes.rs', 'apps/src/radar/map.rs',
             'apps/src/radar/stats.rs', 'apps/src/radar/cli.rs', 'apps/src/radar/coverage.rs', 'apps/src/radar/airport.rs', 'apps/src/radar/help.rs']
REPO = '/repo'

REL = {'<=': ['<'], '>=': ['>'], '==': ['!='], '!=': ['=='], '<': ['<='], '>': ['>=']}
ARI = {'+': ['-'], '-': ['+'], '*': ['/'], '/': ['*'], '%': ['/']}
BOOL = {'&&': ['||'], '||': ['&&']}
BITOP = {'<<': ['>>'], '>>': ['<<'], '&': ['|'], '|': ['&'], '^': ['|']}


def strip_strings_and_comments(line):
    """mask string literals and // comments with spaces (same length) so operators inside them are not mutated;
    attribute strings (deku(... = "...")) are handled separately"""
    out = list(line)
    i, n = 0, len(line)
    in_s = False
    while i < n:
        c = line[i]
        if in_s:
            if c == '\\':
                out[i] = ' '
                if i + 1 < n:
                    out[i + 1] = ' '
                i += 2
                continue
            if c == '"':
                in_s = False
            else:
                out[i] = ' '
        else:
            if c == '"':
                in_s = True
            elif c == '/' and i + 1 < n and line[i + 1] == '/':
                for j in range(i, n):
                    out[j] = ' '
                break
            elif c == "'" and i + 2 < n and line[i + 2] == "'":
                out[i + 1] = ' '
                i += 3
                continue
        i += 1
    return ''.join(out)


def main():
    out = open(sys.argv[1], 'w')
    n = 0
    apps = '--apps' in sys.argv
    for f in (APP_FILES if apps else FILES):
        lines = open('%s/%s' % (REPO, f)).read().split('\n')
        skip_from = None
        for i, ln in enumerate(lines):
            if ln.strip().startswith('#[cfg(test)]') or 'cfg(rsadsb_adsb_deku_verif)' in ln:
                skip_from = i
                break
        crc_table_seen = 0
        in_block = False
        for i, ln in enumerate(lines):
            if skip_from is not None and i >= skip_from:
                break
            s = ln.strip()
            if in_block:
                if '*/' in ln:
                    in_block = False
                continue
            if s.startswith('/*'):
                if '*/' not in ln:
                    in_block = True
                continue
            if not s or s.startswith('//') or s.startswith('#![') or s.startswith('use ') or s.startswith('#[derive') or s.startswith('#[cfg_attr(feature = "serde"'):
                continue
            masked = strip_strings_and_comments(ln)
            muts = []
            # attribute strings: bits = "N", id = "N", id_pat ranges, pad_bits_*, ctx widths
            for m in re.finditer(r'(bits|bytes|pad_bits_before|pad_bits_after|id|count) = "(\d+)"', ln):
                v = int(m.group(2))
                for r in {v + 1, max(0, v - 1)} - {v}:
                    muts.append((m.start(2), m.end(2), str(r), 'attr-' + m.group(1)))
            for m in re.finditer(r'(?<![\w."])(\d+)(?:_u8|_u16|_u32|_u64|u8|u16|u32|u64|usize)?(?![\w.]|\.\d)', masked):
                tok = m.group(1)
                if masked[max(0, m.start() - 2):m.start()] in ('0x', '0b'):
                    continue
                v = int(tok)
                if f.endswith('crc.rs') and 'fn ' not in ln and i < 268:
                    continue
                for r in {v + 1, max(0, v - 1)} - {v}:
                    muts.append((m.start(1), m.end(1), str(r), 'int'))
            for m in re.finditer(r'0x([0-9a-fA-F_]+)', masked):
                if f.endswith('crc.rs') and i < 268:
                    crc_table_seen += 1
                    if crc_table_seen % 37 != 0:      # the table is covered entry by entry by C03's automaton: a few representatives
                        continue
                h = m.group(1).replace('_', '')
                v = int(h, 16)
                for r in {v ^ 1, v ^ (1 << (4 * len(h) - 1))} - {v}:
                    muts.append((m.start(), m.end(), '0x%0*x' % (len(h), r), 'hex'))
            for m in re.finditer(r'(?<![\w])(\d+\.\d+)(?:_f64|_f32|f64|f32)?', masked):
                v = float(m.group(1))
                for r in (v + 1.0, v * 1.001):
                    muts.append((m.start(1), m.end(1), repr(r), 'float'))
            # operators (on the masked line, outside attributes / generics)
            if not s.startswith('#['):
                for m in re.finditer(r'(<=|>=|==|!=|&&|\|\||<<|>>)', masked):
                    op = m.group(1)
                    for r in (REL.get(op) or BOOL.get(op) or BITOP.get(op) or []):
                        muts.append((m.start(), m.end(), r, 'op'))
                for m in re.finditer(r'(?<=[\w)\]] )([<>+\-*/%&|^])(?= [\w(\-!])', masked):
                    op = m.group(1)
                    if op in '<>' and (('fn ' in ln) or ('impl' in ln) or ('->' in ln)):
                        continue
                    for r in (REL.get(op) or ARI.get(op) or BITOP.get(op) or []):
                        muts.append((m.start(), m.end(), r, 'op'))
                for m in re.finditer(r'(?<![\w)\]!=<>])!(?=[\w(])(?!\w+!\()', masked):
                    if re.match(r'!\w+\s*[\(\[{]', masked[m.start():]) and re.match(r'!(vec|format|matches|write|writeln|println|assert|panic|unreachable)', masked[m.start():]):
                        continue
                    muts.append((m.start(), m.end(), '', 'not'))
                for m in re.finditer(r'\b(true|false)\b', masked):
                    muts.append((m.start(), m.end(), 'false' if m.group(1) == 'true' else 'true', 'bool'))
                for m in re.finditer(r'\.(is_some|is_none|is_ok|is_err|min|max|floor|ceil|sin|cos)\(', masked):
                    swap = {'is_some': 'is_none', 'is_none': 'is_some', 'is_ok': 'is_err', 'is_err': 'is_ok', 'min': 'max', 'max': 'min',
                            'floor': 'ceil', 'ceil': 'floor', 'sin': 'cos', 'cos': 'sin'}[m.group(1)]
                    muts.append((m.start(1), m.end(1), swap, 'call'))
            seen = set()
            for (a, b, r, kind) in muts:
                if (a, b, r) in seen or ln[a:b] == r:
                    continue
                seen.add((a, b, r))
                new = ln[:a] + r + ln[b:]
                n += 1
                out.write(json.dumps({'id': ('a%05d' if apps else 'm%05d') % n, 'file': f, 'line': i + 1, 'col': a, 'kind': kind, 'orig': ln[a:b], 'repl': r,
                                      'old_line': ln, 'new_line': new}) + '\n')
    print('mutants:', n)


main()
