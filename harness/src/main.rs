mod alpha;
mod bits;
mod c01;
mod c02;
mod c03;
mod c05;
mod c07;
mod c11;
mod c20;
mod digest;
mod rtext;
mod common;
mod cprref;
mod e1;
mod e2;
mod e3;
mod enc;
mod fields;
mod gen;
mod proj;
mod refdec;
mod tools;
mod vclock;

use common::{silence_panics, Tier};

#[global_allocator]
static GLOBAL: c01::Meter = c01::Meter;

fn main() {
    let args: Vec<String> = std::env::args().collect();
    if args.len() < 2 {
        eprintln!("usage: vh <Cxx> <quick|thorough> | vh replay <file>");
        std::process::exit(2);
    }
    silence_panics();
    let tier = match args.get(2).map(String::as_str) {
        Some("thorough") => Tier::Thorough,
        _ => Tier::Quick,
    };
    let check = args[1].clone();
    // last line of defence against a subject (or harness) that never returns: a check that hangs is worth less than
    // one that says so. Generous caps (the slowest tiers take 1 min quick / 13 min thorough on 16 cores).
    if check.starts_with('C') {
        let cap = std::env::var("VERIF_WALL_CAP_S").ok().and_then(|v| v.parse().ok()).unwrap_or(if tier.thorough() { 4 * 3600u64 } else { 1200 });
        let name = check.clone();
        std::thread::spawn(move || {
            std::thread::sleep(std::time::Duration::from_secs(cap));
            eprintln!("MACHINERY: {name} did not finish within {cap} s (wall cap): no verdict");
            println!("MACHINERY: {name} did not finish within {cap} s (wall cap): no verdict");
            std::process::exit(2);
        });
    }
    let code = match std::panic::catch_unwind(move || dispatch(&args, tier)) {
        Ok(c) => c,
        Err(_) => {
            // a panic escaped every guarded call: decide whose it is by where it was raised
            let (loc, msg) = common::GLOBAL_LAST_PANIC.lock().map(|g| g.clone()).unwrap_or_default();
            let in_subject = loc.contains("libadsb_deku/") || loc.contains("rsadsb_common/");
            let loc = ["libadsb_deku/", "rsadsb_common/"].iter().find_map(|m| loc.find(m).map(|i| loc[i..].to_string())).unwrap_or(loc);
            if in_subject && check.starts_with('C') && check.len() == 3 {
                // the subject panicked inside a call the check makes directly (e.g. through a verification hook)
                let run = common::Run::new(&check, tier);
                run.violation(common::Violation {
                    oracle: "no-panic".into(),
                    class: format!("subject-panic@{}", loc.rsplit('/').next().unwrap_or(&loc)),
                    input: format!("(unguarded call of check {check}; first panic location {loc})"),
                    expected: "the subject function returns".into(),
                    observed: format!("panic: {msg} @ {loc}"),
                });
                run.sample(serde_json::json!({"unguarded_subject_panic": loc, "message": msg}));
                run.finish("other", serde_json::json!({"evaluations": 1, "distinct_nontrivial": 1, "exhaustive": false,
                    "explanation": "the check was cut short by a panic raised inside the subject in a call the check makes outside its per-case guard; that panic is reported as the violation, nothing else was explored in this run"}), vec![])
            } else {
                eprintln!("MACHINERY: harness panic at {loc}: {msg}");
                2
            }
        }
    };
    std::process::exit(code);
}

fn dispatch(args: &[String], tier: Tier) -> i32 {
    match args[1].as_str() {
        "C01" => c01::run(tier),
        "C02" => c02::run(tier),
        "C03" => c03::run(tier),
        "C04" => fields::c04(tier),
        "C05" => c05::run(tier),
        "C06" => fields::generic(tier, "C06", &[6]),
        "C07" => c07::run(tier),
        "C08" => fields::generic(tier, "C08", &[8]),
        "C09" => fields::generic(tier, "C09", &[9]),
        "C10" => fields::generic(tier, "C10", &[10]),
        "C11" => c11::run(tier),
        "C12" => e2::c12(tier),
        "C13" => e2::c13(tier),
        "C14" => e2::c14(tier),
        "C15" => e2::c15(tier),
        "C19" => e3::run(tier),
        "C20" => c20::run(tier),
        "replay" => fields::replay(&args[2]),
        "history" => e2::replay_history(&args[2]),
        "mkfeed" => tools::mkfeed(),
        "feed2table" => tools::feed2table(&args[2..]),
        "render" => tools::render(),
        other => {
            eprintln!("unknown check {other}");
            2
        }
    }
}
