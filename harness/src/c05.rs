//! C05: CPR global position decoding, against the independent R-cpr encoder/decoder.

use adsb_deku::cpr::get_position;
use adsb_deku::verif_hooks as hooks;
use adsb_deku::{Altitude, CPRFormat};
use rayon::prelude::*;
use serde_json::json;
use std::sync::atomic::{AtomicU64, Ordering};

use crate::common::{Run, Tier, Violation};
use crate::cprref::{decode, dlat, encode, haversine_km, nl, nl_transition, rlats, Decode, Rep, NB};

fn alt(odd: bool, yz: u32, xz: u32) -> Altitude {
    Altitude { odd_flag: if odd { CPRFormat::Odd } else { CPRFormat::Even }, lat_cpr: yz, lon_cpr: xz, ..Altitude::default() }
}

fn real(first: Rep, second: Rep) -> Option<(f64, f64)> {
    let a = alt(first.odd, first.yz, first.xz);
    let b = alt(second.odd, second.yz, second.xz);
    get_position((&a, &b)).map(|p| (p.latitude, p.longitude))
}

fn inp(first: Rep, second: Rep) -> String {
    format!(
        "first=({},{},{}) second=({},{},{})",
        if first.odd { "odd" } else { "even" },
        first.yz,
        first.xz,
        if second.odd { "odd" } else { "even" },
        second.yz,
        second.xz
    )
}

struct Ctx<'a> {
    run: &'a Run,
    nviol: AtomicU64,
}

impl Ctx<'_> {
    fn viol(&self, oracle: &str, class: &str, input: String, expected: String, observed: String) {
        if self.nviol.fetch_add(1, Ordering::Relaxed) < 5000 {
            self.run.violation(Violation { oracle: oracle.into(), class: class.into(), input, expected, observed });
        }
    }
}

/// exactly +-87 deg: the closed formula says NL = 2, the published threshold table (`< 87.0`) says 1;
/// both readings are accepted there.
fn at_87(r0: f64, r1: f64) -> bool {
    r0.abs() == 87.0 || r1.abs() == 87.0
}

/// Compare the real decoder with the reference on one raw pair (given order). Returns a class tag.
fn compare(cx: &Ctx, first: Rep, second: Rep) -> u8 {
    let want = decode(first, second);
    let got = real(first, second);
    let (even, odd) = if first.odd { (second, first) } else { (first, second) };
    let (r0, r1) = rlats(even.yz, odd.yz);
    match want {
        Decode::SameParity => {
            if got.is_some() {
                cx.viol("cpr-raw", "same-parity", inp(first, second), "None".into(), format!("{got:?}"));
            }
            0
        }
        Decode::LatRange => {
            if let Some(g) = got {
                cx.viol("cpr-raw", "latitude-out-of-range-pair", inp(first, second), format!("None (zone latitudes {r0:.6}, {r1:.6})"), format!("{g:?}"));
            }
            1
        }
        Decode::NlMismatch => {
            if at_87(r0, r1) {
                return 4;
            }
            if let Some(g) = got {
                cx.viol("cpr-raw", "nl-mismatch-pair", inp(first, second), format!("None (NL {} vs {})", nl(r0), nl(r1)), format!("{g:?}"));
            }
            2
        }
        Decode::Pos { lat, lon } => {
            if at_87(r0, r1) {
                // latitude is still decided; longitude depends on the NL reading
                if let Some((glat, _)) = got {
                    if (glat - lat).abs() > 1e-9 {
                        cx.viol("cpr-raw", "latitude", inp(first, second), format!("{lat}"), format!("{glat}"));
                    }
                }
                return 4;
            }
            match got {
                None => cx.viol("cpr-raw", "missing-position", inp(first, second), format!("Some({lat}, {lon})"), "None".into()),
                Some((glat, glon)) => {
                    if (glat - lat).abs() > 1e-9 {
                        cx.viol("cpr-raw", "latitude", inp(first, second), format!("{lat}"), format!("{glat}"));
                    } else if (glon - lon).abs() > 1e-9 {
                        cx.viol("cpr-raw", "longitude", inp(first, second), format!("({lat}, {lon})"), format!("({glat}, {glon})"));
                    }
                    if !(-90.0..=90.0).contains(&glat) || !(-180.0..180.0).contains(&glon) {
                        cx.viol("cpr-range", "range", inp(first, second), "lat in [-90,90], lon in [-180,180)".into(), format!("({glat}, {glon})"));
                    }
                }
            }
            3
        }
    }
}

pub fn run(tier: Tier) -> i32 {
    let run = Run::new("C05", tier);
    let cx = Ctx { run: &run, nviol: AtomicU64::new(0) };

    // ---- reference self-validation: NL formula vs the 58 transition latitudes; encode/decode round trip
    let mut selfcheck = 0u64;
    for n in 2..=59u32 {
        let t = nl_transition(n);
        assert_eq!(nl(t - 1e-7), n, "reference NL below transition {n}");
        assert_eq!(nl(t + 1e-7), n - 1, "reference NL above transition {n}");
        selfcheck += 2;
    }
    run.add("reference_selfchecks", selfcheck);

    // ---- (1) latitude: (YZ_even, YZ_odd) space, both orders, xz = 32768 (lon = 90/ni)
    let stride: usize = if tier.thorough() { 1 } else { 127 };
    let classes: Vec<AtomicU64> = (0..5).map(|_| AtomicU64::new(0)).collect();
    (0u32..131072).into_par_iter().for_each(|ye| {
        let mut local = [0u64; 5];
        let mut yo = (ye as usize * 31) % stride; // rotate the phase so every residue of YZ_odd is visited
        while yo < 131072 {
            let e = Rep { odd: false, yz: ye, xz: 32768 };
            let o = Rep { odd: true, yz: yo as u32, xz: 32768 };
            local[compare(&cx, e, o) as usize] += 1;
            local[compare(&cx, o, e) as usize] += 1;
            yo += stride;
        }
        if !tier.thorough() {
            // the diagonal and its neighbours: both reports carry (nearly) the same raw latitude value
            for d in -2i64..=2 {
                let yo = i64::from(ye) + d;
                if (0..131072).contains(&yo) {
                    let e = Rep { odd: false, yz: ye, xz: 32768 };
                    let o = Rep { odd: true, yz: yo as u32, xz: 32768 };
                    local[compare(&cx, e, o) as usize] += 1;
                    local[compare(&cx, o, e) as usize] += 1;
                }
            }
            // all pairs within +-2 of every j-rounding boundary: 59*ye - 60*yo + 65536 = k * 131072
            for k in -60i64..=60 {
                let centre = (59 * i64::from(ye) + 65536 - k * 131072) as f64 / 60.0;
                for d in -2i64..=2 {
                    let yo = centre.round() as i64 + d;
                    if (0..131072).contains(&yo) {
                        let e = Rep { odd: false, yz: ye, xz: 32768 };
                        let o = Rep { odd: true, yz: yo as u32, xz: 32768 };
                        local[compare(&cx, e, o) as usize] += 1;
                        local[compare(&cx, o, e) as usize] += 1;
                    }
                }
            }
        }
        for i in 0..5 {
            classes[i].fetch_add(local[i], Ordering::Relaxed);
        }
    });
    let names = ["same_parity", "lat_range_pairs", "nl_mismatch_pairs", "decodable_pairs", "at_87_pairs"];
    let mut lat_cases = 0;
    for (i, n) in names.iter().enumerate() {
        let v = classes[i].load(Ordering::Relaxed);
        run.add(&format!("lat_space_{n}"), v);
        lat_cases += v;
    }
    run.add("lat_space_cases", lat_cases);

    // ---- (2) NL at every reachable zone latitude (hook + public API read-out via lon = 90/ni)
    let nl_cases = AtomicU64::new(0);
    let nl_api = AtomicU64::new(0);
    for odd in [false, true] {
        let nz = if odd { 59u32 } else { 60 };
        (0..nz).into_par_iter().for_each(|z| {
            let dl = dlat(odd);
            let mut api = 0u64;
            let mut n = 0u64;
            for yz in 0u32..131072 {
                let mut lat = dl * (f64::from(z) + f64::from(yz) / NB);
                if lat >= 270.0 {
                    lat -= 360.0;
                }
                if !(-90.0..=90.0).contains(&lat) {
                    continue;
                }
                n += 1;
                let want = nl(lat);
                let got = hooks::cpr_nl(lat);
                if u64::from(want) != got && lat.abs() != 87.0 {
                    cx.viol("nl", "nl-hook", format!("lat={lat}"), format!("{want}"), format!("{got}"));
                }
                // public API: pair it with the other parity encoded from the same true latitude
                let (oyz, _) = encode(lat, 0.0, !odd);
                let this = Rep { odd, yz, xz: 32768 };
                let other = Rep { odd: !odd, yz: oyz, xz: 32768 };
                let (ev, od) = if odd { (other, this) } else { (this, other) };
                let (r0, r1) = rlats(ev.yz, od.yz);
                if let Decode::Pos { lat: rl, .. } = decode(other, this) {
                    if (rl - lat).abs() < 1e-9 && !at_87(r0, r1) {
                        api += 1;
                        let ni = (f64::from(want) - if odd { 1.0 } else { 0.0 }).max(1.0);
                        match real(other, this) {
                            Some((glat, glon)) => {
                                if (glat - lat).abs() > 1e-9 || (glon - 90.0 / ni).abs() > 1e-9 {
                                    cx.viol("nl", "nl-api", inp(other, this), format!("({lat}, {})", 90.0 / ni), format!("({glat}, {glon})"));
                                }
                            }
                            None => cx.viol("nl", "nl-api", inp(other, this), format!("({lat}, {})", 90.0 / ni), "None".into()),
                        }
                    }
                }
            }
            nl_cases.fetch_add(n, Ordering::Relaxed);
            nl_api.fetch_add(api, Ordering::Relaxed);
        });
    }
    // +-1 ulp around each threshold and the symmetric negatives
    for n in 2..=59u32 {
        let t = nl_transition(n);
        for d in [-1e-6, -1e-7, 1e-7, 1e-6] {
            for s in [1.0, -1.0] {
                let lat = s * (t + d);
                if (t - 87.0).abs() < 1e-3 && d.abs() < 1e-6 {
                    continue;
                }
                let want = u64::from(nl(lat));
                let got = hooks::cpr_nl(lat);
                nl_cases.fetch_add(1, Ordering::Relaxed);
                if want != got {
                    cx.viol("nl", "nl-threshold", format!("lat={lat}"), format!("{want}"), format!("{got}"));
                }
            }
        }
    }
    run.add("nl_latitudes", nl_cases.load(Ordering::Relaxed));
    run.add("nl_api_readouts", nl_api.load(Ordering::Relaxed));

    // ---- (3) truth lattice
    let step_e = dlat(false) / NB;
    let mut lats: Vec<f64> = vec![];
    let offs: &[f64] = &[0.0, 1.0, -1.0, 2.0, -2.0, 7.0, -7.0, 0.5, -0.5];
    for n in 2..=59u32 {
        let t = nl_transition(n);
        for o in offs {
            lats.push(t + o * step_e);
            lats.push(-(t + o * step_e));
        }
    }
    for k in 0..=15 {
        for o in offs {
            lats.push(6.0 * f64::from(k) + o * step_e);
            lats.push(-(6.0 * f64::from(k) + o * step_e));
            lats.push(360.0 / 59.0 * f64::from(k) + o * step_e);
            lats.push(-(360.0 / 59.0 * f64::from(k) + o * step_e));
        }
        lats.push(6.0 * f64::from(k) + 3.0);
        lats.push(-(6.0 * f64::from(k) + 3.1));
    }
    for o in [0.0, 1.0, 2.0, 7.0, 100.0] {
        lats.push(90.0 - o * step_e);
        lats.push(-90.0 + o * step_e);
    }
    lats.retain(|l| (-90.0..=90.0).contains(l));
    lats.sort_by(|a, b| a.partial_cmp(b).unwrap());
    lats.dedup();
    let nm = 1.852 / 111.19; // degrees of latitude per NM (approx.)
    let disps: Vec<(f64, f64)> = {
        let mut d = vec![(0.0, 0.0)];
        let mags: &[f64] = if tier.thorough() { &[0.1, 1.0, 3.0] } else { &[3.0] };
        for m in mags {
            for (a, b) in [(1.0, 0.0), (-1.0, 0.0), (0.0, 1.0), (0.0, -1.0), (0.7, 0.7), (0.7, -0.7), (-0.7, 0.7), (-0.7, -0.7)] {
                d.push((a * m * nm, b * m * nm));
            }
        }
        d
    };
    let truth = AtomicU64::new(0);
    let truth_decodable = AtomicU64::new(0);
    lats.par_iter().for_each(|&lat| {
        let nlv = nl(lat);
        let mut lons: Vec<f64> = vec![0.0, 180.0 - 1e-4, -180.0, -180.0 + 1e-4, 179.99999, 90.0, -90.0, 0.001, -0.001];
        let kstep = if tier.thorough() { 1 } else { 7 };
        for zones in [nlv, nlv.saturating_sub(1).max(1)] {
            let dlon = 360.0 / f64::from(zones);
            let mut k = 0;
            while k < zones {
                for o in [0.0, 1.0, -1.0, 2.0, -2.0] {
                    let l = dlon * f64::from(k) + o * dlon / NB;
                    lons.push(if l >= 180.0 { l - 360.0 } else { l });
                }
                k += kstep;
            }
        }
        let mut n = 0u64;
        let mut nd = 0u64;
        for &lon in &lons {
            if !(-180.0..180.0).contains(&lon) {
                continue;
            }
            for &(dla, dlo) in &disps {
                let lat2 = lat + dla;
                if !(-90.0..=90.0).contains(&lat2) {
                    continue;
                }
                let coslat = lat.to_radians().cos().max(0.02);
                let mut lon2 = lon + dlo / coslat;
                if lon2 >= 180.0 {
                    lon2 -= 360.0;
                }
                if lon2 < -180.0 {
                    lon2 += 360.0;
                }
                for second_odd in [false, true] {
                    let (y1, x1) = encode(lat, lon, !second_odd);
                    let (y2, x2) = encode(lat2, lon2, second_odd);
                    let first = Rep { odd: !second_odd, yz: y1, xz: x1 };
                    let second = Rep { odd: second_odd, yz: y2, xz: x2 };
                    n += 1;
                    let tag = compare(&cx, first, second);
                    if tag == 3 {
                        nd += 1;
                        if let Some((glat, glon)) = real(first, second) {
                            // expressed in the zone system of the second report: re-encodes exactly
                            let re = encode(glat, glon, second_odd);
                            if re != (y2, x2) {
                                cx.viol("cpr-truth", "re-encode", inp(first, second), format!("({y2}, {x2})"), format!("{re:?} from ({glat}, {glon})"));
                            }
                            let d_m = haversine_km((glat, glon), (lat2, lon2)) * 1000.0;
                            // quantisation bound: half a step in latitude and in longitude (of the second
                            // report's zone system), in metres, plus 5 % and 10 cm
                            let m_per_deg = 6371.0 * 1000.0 * std::f64::consts::PI / 180.0;
                            let ni = (f64::from(nl(glat)) - if second_odd { 1.0 } else { 0.0 }).max(1.0);
                            let half_lat = dlat(second_odd) / NB / 2.0 * m_per_deg;
                            let half_lon = 360.0 / ni / NB / 2.0 * m_per_deg * glat.to_radians().cos().abs().max(lat2.to_radians().cos().abs());
                            let bound = 1.05 * (half_lat * half_lat + half_lon * half_lon).sqrt() + 0.1;
                            if d_m > bound {
                                cx.viol(
                                    "cpr-truth",
                                    "distance",
                                    format!("{} true2=({lat2}, {lon2})", inp(first, second)),
                                    format!("within the quantisation error ({bound:.2} m) of the second true position"),
                                    format!("({glat}, {glon}) = {d_m:.2} m away"),
                                );
                            }
                        }
                    }
                }
            }
        }
        truth.fetch_add(n, Ordering::Relaxed);
        truth_decodable.fetch_add(nd, Ordering::Relaxed);
    });
    run.add("truth_lattice_cases", truth.load(Ordering::Relaxed));
    run.add("truth_lattice_decodable", truth_decodable.load(Ordering::Relaxed));

    // ---- (4) raw longitude space: per NL band one consistent latitude pair; XZ_even x XZ_odd lattice
    let mut bands: Vec<f64> = vec![];
    for n in 1..=59u32 {
        let hi = if n == 1 { 89.5 } else { nl_transition(n) };
        let lo = if n == 59 { 0.5 } else { nl_transition(n + 1) };
        let mid = (hi + lo) / 2.0;
        bands.push(mid);
        bands.push(-mid);
    }
    let lon_cases = AtomicU64::new(0);
    let xe_stride: usize = if tier.thorough() { 1 } else { 61 };
    bands.par_iter().for_each(|&lat| {
        let (ye, _) = encode(lat, 0.0, false);
        let (yo, _) = encode(lat, 0.0, true);
        let nlv = i64::from(nl(lat));
        let mut n = 0u64;
        let mut xe = 0usize;
        while xe < 131072 {
            // XZ_odd values within +-2 of every m-rounding boundary: xe*(NL-1) - xo*NL + 65536 = k*131072
            let mut xos: Vec<i64> = vec![0, 1, 65535, 65536, 131071, xe as i64];
            for k in -(nlv + 1)..=(nlv + 1) {
                let c = ((xe as i64) * (nlv - 1) + 65536 - k * 131072) as f64 / nlv as f64;
                for d in -2..=2 {
                    xos.push(c.round() as i64 + d);
                }
            }
            xos.sort();
            xos.dedup();
            for xo in xos {
                if !(0..131072).contains(&xo) {
                    continue;
                }
                let e = Rep { odd: false, yz: ye, xz: xe as u32 };
                let o = Rep { odd: true, yz: yo, xz: xo as u32 };
                compare(&cx, e, o);
                compare(&cx, o, e);
                n += 2;
            }
            xe += xe_stride;
        }
        lon_cases.fetch_add(n, Ordering::Relaxed);
    });
    run.add("lon_space_cases", lon_cases.load(Ordering::Relaxed));

    // ---- (5) equal parity
    let mut sp = 0;
    for odd in [false, true] {
        for (a, b) in [(0u32, 0u32), (1, 131071), (93000, 74158), (65536, 65536)] {
            for (c, d) in [(0u32, 0u32), (51372, 50194), (131071, 1)] {
                compare(&cx, Rep { odd, yz: a, xz: c }, Rep { odd, yz: b, xz: d });
                sp += 1;
            }
        }
    }
    run.add("same_parity_cases", sp);

    let total = lat_cases + nl_cases.load(Ordering::Relaxed) + truth.load(Ordering::Relaxed) + lon_cases.load(Ordering::Relaxed) + sp;
    run.sample(json!({"lat_space": "first=(even,93000,32768) second=(odd,74158,32768)", "expect": "lat 52.2657..., lon 90/ni"}));
    run.sample(json!({"truth": "true=(10.4704713+1 step, 0.0) displaced 3 NM north, second=odd", "expect": "None if the pair straddles NL 59/58, else within 6 m and re-encodes exactly"}));
    run.sample(json!({"lon_space": "band NL=36 lat~52.3: XZ_even=51372, XZ_odd in +-2 of every m boundary"}));
    let cov = json!({
        "evaluations": total,
        "distinct_nontrivial": classes[3].load(Ordering::Relaxed) + truth_decodable.load(Ordering::Relaxed),
        "rule": "raw (YZ_even, YZ_odd) space both orders (thorough: all 2^34 pairs; quick: YZ_even full x YZ_odd stride 127 with rotating phase + all pairs within +-2 of every j boundary); NL at all reachable zone latitudes (hook and public read-out); truth lattice around NL transitions, zone boundaries, poles, equator, antimeridian x displacements x both orders; raw longitude space per NL band around every m boundary. Non-trivial = pairs the reference decodes to a position",
        "exhaustive": tier.thorough(),
        "truth_latitudes": lats.len(),
        "nl_bands": bands.len(),
    });
    run.finish(
        "exploration",
        cov,
        vec![
            "reference = D.2.4.7.7 global decode with NL by the closed formula; at exactly +-87 deg (formula: 2, published table `< 87.0`: 1) both NL readings are accepted".into(),
            "truth oracle assumes the two reports are at most 3 NM apart (the statement's premise)".into(),
            "longitude / truth checks are complete over the stated lattice, not over all 2^68 quadruples".into(),
        ],
    )
}
