//! Projection of the subject's decoded `Frame` into the flat observation names used by R-frame.
//! Typed access to public fields (compile-time checked); `Debug` text only for private fields.

use adsb_deku::adsb::{
    ADSBVersion, AirborneVelocitySubType, AircraftStatusType, ControlField, EmergencyState, OperationStatus,
    StatusForGroundTrack, VerticalRateSource, ME,
};
use adsb_deku::bds::BDS;
use adsb_deku::{
    CPRFormat, Capability, DownlinkRequest, FlightStatus, Frame, Sign, SurveillanceStatus, UtilityMessageType, DF,
    ICAO,
};

use crate::refdec::V;

pub type Obs = Vec<(&'static str, V)>;

fn icao(i: &ICAO) -> V {
    V::U((u64::from(i.0[0]) << 16) | (u64::from(i.0[1]) << 8) | u64::from(i.0[2]))
}

pub fn icao_u32(i: &ICAO) -> u32 {
    (u32::from(i.0[0]) << 16) | (u32::from(i.0[1]) << 8) | u32::from(i.0[2])
}

fn cap(c: &Capability) -> V {
    V::U(match c {
        Capability::AG_UNCERTAIN => 0,
        // the catch-all variant is told apart from the named ones: 0x100 + carried value
        Capability::Reserved(v) => 0x100 + u64::from(*v),
        Capability::AG_GROUND => 4,
        Capability::AG_AIRBORNE => 5,
        Capability::AG_UNCERTAIN2 => 6,
        Capability::AG_UNCERTAIN3 => 7,
        #[allow(unreachable_patterns)]
        _ => {
            crate::common::note_unknown_variant();
            0xffff
        }
    })
}

fn fs(f: &FlightStatus) -> V {
    V::U(*f as u64)
}

fn dr(d: &DownlinkRequest) -> V {
    V::U(match d {
        DownlinkRequest::None => 0,
        DownlinkRequest::RequestSendCommB => 1,
        DownlinkRequest::CommBBroadcastMsg1 => 4,
        DownlinkRequest::CommBBroadcastMsg2 => 5,
        DownlinkRequest::Unknown(v) => 0x100 + u64::from(*v),
        #[allow(unreachable_patterns)]
        _ => {
            crate::common::note_unknown_variant();
            0xffff
        }
    })
}

fn umt(u: &UtilityMessageType) -> V {
    V::U(*u as u64)
}

fn sign(s: &Sign) -> V {
    V::U(match s {
        Sign::Positive => 0,
        Sign::Negative => 1,
        #[allow(unreachable_patterns)]
        _ => {
            crate::common::note_unknown_variant();
            0xffff
        }
    })
}

fn cprf(c: &CPRFormat) -> V {
    V::U(match c {
        CPRFormat::Even => 0,
        CPRFormat::Odd => 1,
    })
}

fn b(x: bool) -> V {
    V::U(u64::from(x))
}

/// Extract `name: value` (integer or bool) from a derive(Debug) rendering.
fn debug_field(text: &str, name: &str) -> Option<u64> {
    let pat = format!("{name}: ");
    let i = text.find(&pat)? + pat.len();
    let rest = &text[i..];
    let end = rest.find([',', ' ', '}', ')']).unwrap_or(rest.len());
    match &rest[..end] {
        "true" => Some(1),
        "false" => Some(0),
        s => s.parse().ok(),
    }
}

fn cf_type(cf: &ControlField) -> V {
    // `t` is private: read the variant name from Debug
    let d = format!("{cf:?}");
    let names = [
        "ADSB_ES_NT_ALT",
        "ADSB_ES_NT",
        "TISB_FINE",
        "TISB_COARSE",
        "TISB_MANAGE",
        "TISB_ADSB_RELAY",
        "TISB_ADSB",
        "Reserved",
    ];
    let vals = [1u64, 0, 2, 3, 4, 5, 6, 7];
    let i = d.find("t: ").map(|i| i + 3).unwrap_or(0);
    let rest = &d[i..];
    for (n, v) in names.iter().zip(vals) {
        if rest.starts_with(n) {
            return V::U(v);
        }
    }
    V::S(format!("unparsed cf type in {d}"))
}

fn me(o: &mut Obs, m: &ME) {
    match m {
        ME::NoPosition(_) => o.push(("me.tc", V::U(0))),
        ME::Reserved0(_) => o.push(("me.tc", V::U(23))),
        ME::SurfaceSystemStatus(_) => o.push(("me.tc", V::U(24))),
        ME::Reserved1(_) => o.push(("me.tc_class", V::U(25))),
        ME::AircraftOperationalCoordination(_) => o.push(("me.tc", V::U(30))),
        ME::AircraftIdentification(id) => {
            o.push(("me.tc", V::U(id.tc as u64)));
            o.push((
                "me.ident.tc_letter",
                V::S(match id.tc {
                    adsb_deku::adsb::TypeCoding::D => "D",
                    adsb_deku::adsb::TypeCoding::C => "C",
                    adsb_deku::adsb::TypeCoding::B => "B",
                    adsb_deku::adsb::TypeCoding::A => "A",
                    #[allow(unreachable_patterns)]
                    _ => {
                        crate::common::note_unknown_variant();
                        "?"
                    }
                }
                .to_string()),
            ));
            o.push(("me.ident.ca", V::U(u64::from(id.ca))));
            o.push(("me.ident.cn", V::S(id.cn.clone())));
        }
        ME::SurfacePosition(s) => {
            o.push(("me.tc_class", V::U(5)));
            o.push(("me.tc", V::U(u64::from(s.tc))));
            o.push(("me.surf.mov", V::U(u64::from(s.mov))));
            o.push((
                "me.surf.s",
                V::U(match s.s {
                    StatusForGroundTrack::Invalid => 0,
                    StatusForGroundTrack::Valid => 1,
                    #[allow(unreachable_patterns)]
                    _ => {
                        crate::common::note_unknown_variant();
                        0xffff
                    }
                }),
            ));
            o.push(("me.surf.trk", V::U(u64::from(s.trk))));
            o.push(("me.surf.t", b(s.t)));
            o.push(("me.surf.f", cprf(&s.f)));
            o.push(("me.surf.lat_cpr", V::U(u64::from(s.lat_cpr))));
            o.push(("me.surf.lon_cpr", V::U(u64::from(s.lon_cpr))));
        }
        ME::AirbornePositionBaroAltitude(a) | ME::AirbornePositionGNSSAltitude(a) => {
            let baro = matches!(m, ME::AirbornePositionBaroAltitude(_));
            o.push(("me.tc_class", V::U(if baro { 9 } else { 20 })));
            o.push(("me.tc", V::U(u64::from(a.tc))));
            o.push(("me.pos.tc", V::U(u64::from(a.tc))));
            o.push((
                "me.pos.ss",
                V::U(match a.ss {
                    SurveillanceStatus::NoCondition => 0,
                    SurveillanceStatus::PermanentAlert => 1,
                    SurveillanceStatus::TemporaryAlert => 2,
                    SurveillanceStatus::SPICondition => 3,
                    #[allow(unreachable_patterns)]
                    _ => {
                        crate::common::note_unknown_variant();
                        0xffff
                    }
                }),
            ));
            o.push(("me.pos.saf", V::U(u64::from(a.saf_or_imf))));
            o.push(("me.pos.alt", V::I(a.alt.map_or(-1, i64::from))));
            o.push(("me.pos.t", b(a.t)));
            o.push(("me.pos.f", cprf(&a.odd_flag)));
            o.push(("me.pos.lat_cpr", V::U(u64::from(a.lat_cpr))));
            o.push(("me.pos.lon_cpr", V::U(u64::from(a.lon_cpr))));
        }
        ME::AirborneVelocity(v) => {
            o.push(("me.tc", V::U(19)));
            o.push(("me.vel.st", V::U(u64::from(v.st))));
            o.push(("me.vel.nac_v", V::U(u64::from(v.nac_v))));
            match &v.sub_type {
                AirborneVelocitySubType::GroundSpeedDecoding(g) => {
                    o.push(("me.vel.kind", V::U(1)));
                    o.push(("me.vel.ew_sign", sign(&g.ew_sign)));
                    o.push(("me.vel.ew_vel", V::U(u64::from(g.ew_vel))));
                    o.push(("me.vel.ns_sign", sign(&g.ns_sign)));
                    o.push(("me.vel.ns_vel", V::U(u64::from(g.ns_vel))));
                }
                AirborneVelocitySubType::AirspeedDecoding(a) => {
                    o.push(("me.vel.kind", V::U(3)));
                    o.push(("me.vel.status_heading", V::U(u64::from(a.status_heading))));
                    o.push(("me.vel.mag_heading", V::U(u64::from(a.mag_heading))));
                    o.push(("me.vel.airspeed_type", V::U(u64::from(a.airspeed_type))));
                    o.push(("me.vel.airspeed", V::U(u64::from(a.airspeed))));
                }
                AirborneVelocitySubType::Reserved0(r) => {
                    o.push(("me.vel.kind", V::U(0)));
                    o.push(("me.vel.reserved22", V::U(u64::from(*r))));
                }
                AirborneVelocitySubType::Reserved1(r) => {
                    o.push(("me.vel.kind", V::U(5)));
                    o.push(("me.vel.reserved22", V::U(u64::from(*r))));
                }
                #[allow(unreachable_patterns)]
                _ => {
                    crate::common::note_unknown_variant();
                    o.push(("variant-unknown-to-the-reference", V::U(1)))
                }
            }
            o.push((
                "me.vel.vrate_src",
                V::U(match v.vrate_src {
                    VerticalRateSource::BarometricPressureAltitude => 0,
                    VerticalRateSource::GeometricAltitude => 1,
                    #[allow(unreachable_patterns)]
                    _ => {
                        crate::common::note_unknown_variant();
                        0xffff
                    }
                }),
            ));
            o.push(("me.vel.vrate_sign", sign(&v.vrate_sign)));
            o.push(("me.vel.vrate_value", V::U(u64::from(v.vrate_value))));
            o.push(("me.vel.gnss_sign", sign(&v.gnss_sign)));
            o.push(("me.vel.gnss_baro_diff", V::U(u64::from(v.gnss_baro_diff))));
        }
        ME::AircraftStatus(s) => {
            o.push(("me.tc", V::U(28)));
            o.push((
                "me.status.sub_type",
                match s.sub_type {
                    AircraftStatusType::NoInformation => V::U(0),
                    AircraftStatusType::EmergencyPriorityStatus => V::U(1),
                    AircraftStatusType::ACASRaBroadcast => V::U(2),
                    // the enum folds 3..=7: any of them is "reserved"
                    AircraftStatusType::Reserved => V::S("reserved".into()),
                    #[allow(unreachable_patterns)]
                    _ => {
                        crate::common::note_unknown_variant();
                        V::U(0xffff)
                    }
                },
            ));
            o.push((
                "me.status.emergency",
                V::U(match s.emergency_state {
                    EmergencyState::None => 0,
                    EmergencyState::General => 1,
                    EmergencyState::Lifeguard => 2,
                    EmergencyState::MinimumFuel => 3,
                    EmergencyState::NoCommunication => 4,
                    EmergencyState::UnlawfulInterference => 5,
                    EmergencyState::DownedAircraft => 6,
                    EmergencyState::Reserved2 => 7,
                    #[allow(unreachable_patterns)]
                    _ => {
                        crate::common::note_unknown_variant();
                        0xffff
                    }
                }),
            ));
            o.push(("me.status.squawk", V::U(u64::from(s.squawk))));
        }
        ME::TargetStateAndStatusInformation(t) => {
            o.push(("me.tc", V::U(29)));
            o.push(("me.tss.subtype", V::U(u64::from(t.subtype))));
            o.push(("me.tss.alt_type", b(t.is_fms)));
            o.push(("me.tss.altitude", V::U(u64::from(t.altitude))));
            o.push(("me.tss.qnh", V::F(f64::from(t.qnh))));
            o.push(("me.tss.is_heading", b(t.is_heading)));
            o.push(("me.tss.heading", V::F(f64::from(t.heading))));
            o.push(("me.tss.nacp", V::U(u64::from(t.nacp))));
            o.push(("me.tss.nicbaro", V::U(u64::from(t.nicbaro))));
            o.push(("me.tss.sil", V::U(u64::from(t.sil))));
            o.push(("me.tss.mode_validity", b(t.mode_validity)));
            o.push(("me.tss.autopilot", b(t.autopilot)));
            o.push(("me.tss.vnav", b(t.vnac)));
            o.push(("me.tss.alt_hold", b(t.alt_hold)));
            o.push(("me.tss.imf", b(t.imf)));
            o.push(("me.tss.approach", b(t.approach)));
            o.push(("me.tss.tcas", b(t.tcas)));
            o.push(("me.tss.lnav", b(t.lnav)));
        }
        ME::AircraftOperationStatus(os) => {
            o.push(("me.tc", V::U(31)));
            let ver = |v: &ADSBVersion| {
                V::U(match v {
                    ADSBVersion::DOC9871AppendixA => 0,
                    ADSBVersion::DOC9871AppendixB => 1,
                    ADSBVersion::DOC9871AppendixC => 2,
                    // a variant the pinned enum does not have (an added catch-all) is projected apart from the named ones
                    #[allow(unreachable_patterns)]
                    _ => {
                        crate::common::note_unknown_variant();
                        99
                    }
                })
            };
            match os {
                OperationStatus::Airborne(a) => {
                    o.push(("me.ops.st", V::U(0)));
                    let c = &a.capability_class;
                    o.push(("me.ops.cc.acas", V::U(u64::from(c.acas))));
                    o.push(("me.ops.cc.cdti", V::U(u64::from(c.cdti))));
                    o.push(("me.ops.cc.arv", V::U(u64::from(c.arv))));
                    o.push(("me.ops.cc.ts", V::U(u64::from(c.ts))));
                    o.push(("me.ops.cc.tc", V::U(u64::from(c.tc))));
                    om(o, &format!("{:?}", a.operational_mode));
                    o.push(("me.ops.version", ver(&a.version_number)));
                    o.push(("me.ops.nic_a", V::U(u64::from(a.nic_supplement_a))));
                    o.push(("me.ops.nacp", V::U(u64::from(a.navigational_accuracy_category))));
                    o.push(("me.ops.gva", V::U(u64::from(a.geometric_vertical_accuracy))));
                    o.push(("me.ops.sil", V::U(u64::from(a.source_integrity_level))));
                    o.push(("me.ops.nicbaro", V::U(u64::from(a.barometric_altitude_integrity))));
                    o.push(("me.ops.hrd", V::U(u64::from(a.horizontal_reference_direction))));
                    o.push(("me.ops.sil_supp", V::U(u64::from(a.sil_supplement))));
                }
                OperationStatus::Surface(s) => {
                    o.push(("me.ops.st", V::U(1)));
                    let c = &s.capability_class;
                    o.push(("me.ops.cc.poa", V::U(u64::from(c.poe))));
                    o.push(("me.ops.cc.es1090", V::U(u64::from(c.es1090))));
                    o.push(("me.ops.cc.b2_low", V::U(u64::from(c.b2_low))));
                    o.push(("me.ops.cc.uat_in", V::U(u64::from(c.uat_in))));
                    o.push(("me.ops.cc.nac_v", V::U(u64::from(c.nac_v))));
                    o.push(("me.ops.cc.nic_c", V::U(u64::from(c.nic_supplement_c))));
                    o.push(("me.ops.lw", V::U(u64::from(s.lw_codes))));
                    om(o, &format!("{:?}", s.operational_mode));
                    o.push(("me.ops.gps_offset", V::U(u64::from(s.gps_antenna_offset))));
                    o.push(("me.ops.version", ver(&s.version_number)));
                    o.push(("me.ops.nic_a", V::U(u64::from(s.nic_supplement_a))));
                    o.push(("me.ops.nacp", V::U(u64::from(s.navigational_accuracy_category))));
                    o.push(("me.ops.sil", V::U(u64::from(s.source_integrity_level))));
                    o.push(("me.ops.nicbaro", V::U(u64::from(s.barometric_altitude_integrity))));
                    o.push(("me.ops.hrd", V::U(u64::from(s.horizontal_reference_direction))));
                    o.push(("me.ops.sil_supp", V::U(u64::from(s.sil_supplement))));
                }
                OperationStatus::Reserved(..) => {
                    o.push(("me.ops.st", V::S("reserved".into())));
                }
                #[allow(unreachable_patterns)]
                _ => {
                    crate::common::note_unknown_variant();
                    o.push(("variant-unknown-to-the-reference", V::U(1)))
                }
            }
        }
        #[allow(unreachable_patterns)]
        _ => {
            crate::common::note_unknown_variant();
            o.push(("variant-unknown-to-the-reference", V::U(1)))
        }
    }
}

fn om(o: &mut Obs, dbg: &str) {
    for (name, key) in [
        ("me.ops.om.tcas_ra", "tcas_ra_active"),
        ("me.ops.om.ident", "ident_switch_active"),
        ("me.ops.om.atc", "reserved_recv_atc_service"),
        ("me.ops.om.saf", "single_antenna_flag"),
        ("me.ops.om.sda", "system_design_assurance"),
    ] {
        match debug_field(dbg, key) {
            Some(v) => o.push((name, V::U(v))),
            None => o.push((name, V::S(format!("unparsed {key} in {dbg}")))),
        }
    }
}

fn bds(o: &mut Obs, b_: &BDS) {
    match b_ {
        BDS::Empty(_) => o.push(("mb.kind", V::U(0x00))),
        BDS::DataLinkCapability(d) => {
            o.push(("mb.kind", V::U(0x10)));
            o.push(("mb.dlc.continuation", b(d.continuation_flag)));
            o.push(("mb.dlc.overlay", b(d.overlay_command_capability)));
            o.push(("mb.dlc.acas", b(d.acas)));
            o.push(("mb.dlc.subnet_version", V::U(u64::from(d.mode_s_subnetwork_version_number))));
            o.push(("mb.dlc.enhanced", b(d.transponder_enhanced_protocol_indicator)));
            o.push(("mb.dlc.specific_services", b(d.mode_s_specific_services_capability)));
            o.push(("mb.dlc.uelm", V::U(u64::from(d.uplink_elm_average_throughput_capability))));
            o.push(("mb.dlc.delm", V::U(u64::from(d.downlink_elm))));
            o.push(("mb.dlc.ident_cap", b(d.aircraft_identification_capability)));
            o.push(("mb.dlc.squitter_cap", b(d.squitter_capability_subfield)));
            o.push(("mb.dlc.sic", b(d.surveillance_identifier_code)));
            o.push(("mb.dlc.gicb", b(d.common_usage_gicb_capability_report)));
            o.push(("mb.dlc.acas4", V::U(u64::from(d.reserved_acas))));
            o.push(("mb.dlc.bit_array", V::U(u64::from(d.bit_array))));
        }
        BDS::AircraftIdentification(s) => {
            o.push(("mb.kind", V::U(0x20)));
            o.push(("mb.ident", V::S(s.clone())));
        }
        BDS::Unknown((id, _)) => {
            o.push(("mb.unknown_id", V::U(u64::from(*id))));
        }
        #[allow(unreachable_patterns)]
        _ => {
            crate::common::note_unknown_variant();
            o.push(("variant-unknown-to-the-reference", V::U(1)))
        }
    }
}

/// DF number announced by the decoded variant.
pub fn df_code(frame: &Frame) -> u8 {
    match &frame.df {
        DF::ShortAirAirSurveillance { .. } => 0,
        DF::SurveillanceAltitudeReply { .. } => 4,
        DF::SurveillanceIdentityReply { .. } => 5,
        DF::AllCallReply { .. } => 11,
        DF::LongAirAir { .. } => 16,
        DF::ADSB(_) => 17,
        DF::TisB { .. } => 18,
        DF::ExtendedQuitterMilitaryApplication { .. } => 19,
        DF::CommBAltitudeReply { .. } => 20,
        DF::CommBIdentityReply { .. } => 21,
        DF::ModeSExtendedSquitter { df, .. } => *df,
        #[allow(unreachable_patterns)]
        _ => {
            crate::common::note_unknown_variant();
            0xff
        }
    }
}

pub fn project(frame: &Frame) -> Obs {
    let mut o: Obs = Vec::with_capacity(32);
    match &frame.df {
        DF::ShortAirAirSurveillance { vs, cc, sl, ri, altitude, parity, .. } => {
            o.push(("vs", V::U(u64::from(*vs))));
            o.push(("cc", V::U(u64::from(*cc))));
            o.push(("sl", V::U(u64::from(*sl))));
            o.push(("ri", V::U(u64::from(*ri))));
            o.push(("ac13", V::U(u64::from(altitude.0))));
            o.push(("ap", icao(parity)));
        }
        DF::SurveillanceAltitudeReply { fs: f, dr: d, um, ac, ap } => {
            o.push(("fs", fs(f)));
            o.push(("dr", dr(d)));
            o.push(("iis", V::U(u64::from(um.iis))));
            o.push(("ids", umt(&um.ids)));
            o.push(("ac13", V::U(u64::from(ac.0))));
            o.push(("ap", icao(ap)));
        }
        DF::SurveillanceIdentityReply { fs: f, dr: d, um, id, ap } => {
            o.push(("fs", fs(f)));
            o.push(("dr", dr(d)));
            o.push(("iis", V::U(u64::from(um.iis))));
            o.push(("ids", umt(&um.ids)));
            o.push(("id13", V::U(u64::from(id.0))));
            o.push(("ap", icao(ap)));
        }
        DF::AllCallReply { capability, icao: aa, p_icao } => {
            o.push(("ca", cap(capability)));
            o.push(("aa", icao(aa)));
            o.push(("pi", icao(p_icao)));
        }
        DF::LongAirAir { vs, sl, ri, altitude, mv, parity, .. } => {
            o.push(("vs", V::U(u64::from(*vs))));
            o.push(("sl", V::U(u64::from(*sl))));
            o.push(("ri", V::U(u64::from(*ri))));
            o.push(("ac13", V::U(u64::from(altitude.0))));
            const NAMES: [&str; 7] = ["mv0", "mv1", "mv2", "mv3", "mv4", "mv5", "mv6"];
            for (i, n) in NAMES.iter().enumerate() {
                o.push((n, mv.get(i).map_or(V::S("missing".into()), |x| V::U(u64::from(*x)))));
            }
            o.push(("ap", icao(parity)));
        }
        DF::ADSB(a) => {
            o.push(("ca", cap(&a.capability)));
            o.push(("aa", icao(&a.icao)));
            me(&mut o, &a.me);
            o.push(("pi", icao(&a.pi)));
        }
        DF::TisB { cf, pi } => {
            o.push(("cf", cf_type(cf)));
            o.push(("aa", icao(&cf.aa)));
            me(&mut o, &cf.me);
            o.push(("pi", icao(pi)));
        }
        DF::ExtendedQuitterMilitaryApplication { af } => {
            o.push(("af", V::U(u64::from(*af))));
        }
        DF::CommBAltitudeReply { flight_status, dr: d, um, alt, bds: bd } => {
            o.push(("fs", fs(flight_status)));
            o.push(("dr", dr(d)));
            o.push(("iis", V::U(u64::from(um.iis))));
            o.push(("ids", umt(&um.ids)));
            o.push(("ac13", V::U(u64::from(alt.0))));
            bds(&mut o, bd);
        }
        DF::CommBIdentityReply { fs: f, dr: d, um, id, bds: bd, parity } => {
            o.push(("fs", fs(f)));
            o.push(("dr", dr(d)));
            o.push(("iis", V::U(u64::from(um.iis))));
            o.push(("ids", umt(&um.ids)));
            o.push(("id13", V::U(u64::from(*id))));
            bds(&mut o, bd);
            o.push(("ap", icao(parity)));
        }
        DF::ModeSExtendedSquitter { df, capability, icao: aa, type_code, adsb_data, parity } => {
            o.push(("x.df", V::U(u64::from(*df))));
            o.push(("ca", cap(capability)));
            o.push(("aa", icao(aa)));
            o.push(("x.type_code", V::U(u64::from(*type_code))));
            o.push(("x.data", V::U(*adsb_data)));
            o.push(("pi", icao(parity)));
        }
        #[allow(unreachable_patterns)]
        _ => {
            crate::common::note_unknown_variant();
            o.push(("variant-unknown-to-the-reference", V::U(1)))
        }
    }
    o
}

pub fn obs_get<'a>(o: &'a Obs, name: &str) -> Option<&'a V> {
    o.iter().find(|(n, _)| *n == name).map(|(_, v)| v)
}
