//! C02: downlink-format recognition, frame-length discipline, acceptance set.

use adsb_deku::Frame;
use rayon::prelude::*;
use serde_json::json;

use crate::bits::{hex, set_bits};
use crate::common::{Run, Tier};
use crate::e1::{all_leaves, contexts, decode, e1_coverage, run_units, Decoded, Local};
use crate::proj::df_code;
use crate::refdec::{df_nbits, layout, Reject};

fn tails(n: usize, frame: &[u8]) -> Vec<(&'static str, Vec<u8>)> {
    let mut rep = Vec::new();
    while rep.len() < n {
        rep.extend_from_slice(frame);
    }
    rep.truncate(n);
    vec![("00", vec![0u8; n]), ("ff", vec![0xffu8; n]), ("55", vec![0x55u8; n]), ("repeat", rep)]
}

/// The acceptance oracle for one buffer.
pub fn accept_check(buf: &[u8], loc: &mut Local) {
    loc.inc("decodes");
    let class_df = if buf.is_empty() { "empty".to_string() } else { format!("DF{}", (buf[0] >> 3) & 0x1f) };
    let real = decode(buf);
    match layout(buf) {
        Err(r) => {
            let why = match r {
                Reject::Format => "unsupported-format",
                Reject::Short => "too-short",
            };
            match real {
                Decoded::Err(_) => loc.inc("predicted_rejections"),
                Decoded::Ok(f) => loc.viol(
                    "acceptance",
                    format!("{class_df}:accepted-{why}"),
                    hex(buf),
                    format!("Err ({why}, {} bytes)", buf.len()),
                    format!("Ok(DF{} crc={:06x})", df_code(&f), f.crc),
                ),
                Decoded::Panic(p) => loc.viol("acceptance", format!("{class_df}:panic-instead-of-error"), hex(buf), "Err".into(), format!("panic: {p}")),
            }
        }
        Ok(lay) => match real {
            Decoded::Ok(f) => {
                loc.inc("accepted");
                if df_code(&f) != lay.df {
                    loc.viol("acceptance", format!("{}:df", lay.leaf), hex(buf), format!("DF{}", lay.df), format!("DF{}", df_code(&f)));
                }
                // the statement characterises the rejection set exactly: an operational-status report whose
                // reserved bits or version are outside the version 0-2 layout is rejected
                if lay.may_reject {
                    loc.viol(
                        "acceptance",
                        format!("{}:accepted-outside-version-0-2-layout", lay.leaf),
                        hex(buf),
                        "Err (reserved bits non-zero or version > 2)".into(),
                        format!("Ok(DF{})", df_code(&f)),
                    );
                }
                loc.outcomes.insert(u64::from(lay.df) << 32 | u64::from(f.crc));
            }
            Decoded::Err(e) => {
                if lay.may_reject {
                    loc.inc("permitted_rejections");
                } else {
                    loc.viol("acceptance", format!("{}:rejected", lay.leaf), hex(buf), "Ok(frame)".into(), format!("Err({e})"));
                }
            }
            // a frame of a supported format with enough bytes is accepted: a panic is neither a frame nor an error
            Decoded::Panic(p) => loc.viol("acceptance", format!("{}:panic-instead-of-frame", lay.leaf), hex(buf), "Ok(frame)".into(), format!("panic: {p}")),
        },
    }
}

fn same_frame(a: &Frame, b: &Frame) -> bool {
    a.crc == b.crc && a.df == b.df
}

/// Prefix-decides: every truncation below the required length is an error; every extension by
/// garbage decodes to the identical frame and checksum.
fn prefix_check(frame: &[u8], loc: &mut Local) {
    let need = frame.len();
    let exact = match decode(frame) {
        Decoded::Ok(f) => Some(f),
        _ => None,
    };
    for (tname, tail) in tails(32 - need, frame) {
        let mut full = frame.to_vec();
        full.extend_from_slice(&tail);
        for n in 0..=32usize {
            let buf = &full[..n];
            loc.inc("prefix_cases");
            accept_check(buf, loc);
            if n > need {
                if let Some(ex) = &exact {
                    match decode(buf) {
                        Decoded::Ok(f) if same_frame(&f, ex) => {}
                        Decoded::Ok(f) => loc.viol(
                            "trailing-bytes",
                            format!("DF{}:tail-{tname}", df_code(ex)),
                            hex(buf),
                            format!("same as exact-length decode: crc={:06x} {:?}", ex.crc, ex.df),
                            format!("crc={:06x} {:?}", f.crc, f.df),
                        ),
                        Decoded::Err(e) => loc.viol(
                            "trailing-bytes",
                            format!("DF{}:tail-{tname}", df_code(ex)),
                            hex(buf),
                            "Ok (same as exact-length decode)".into(),
                            format!("Err({e})"),
                        ),
                        Decoded::Panic(_) => loc.inc("panics_left_to_C01"),
                    }
                }
            }
        }
    }
}

pub fn run(tier: Tier) -> i32 {
    let run = Run::new("C02", tier);
    let leaves = all_leaves();
    // (1) every leaf: base + bit-walk + field sweeps: acceptance + DF + crc window
    let st = run_units(&run, &leaves, true, false, |bytes, loc: &mut Local| accept_check(bytes, loc));

    // (2) all 32 DF codes x lengths 0..=32 x contexts (first five bits forced to the DF code)
    let ctxs = contexts(32, tier, run.seed);
    let jobs: Vec<(u64, usize)> = (0u64..32).flat_map(|df| (0..ctxs.len()).map(move |c| (df, c))).collect();
    let locs: Vec<Local> = jobs
        .par_iter()
        .map(|(df, c)| {
            let mut loc = Local::default();
            let mut buf = ctxs[*c].1.clone();
            set_bits(&mut buf, 1, 5, *df);
            for n in 0..=32usize {
                loc.inc("length_cases");
                accept_check(&buf[..n], &mut loc);
            }
            // rejected formats and every length: single-bit walk over the first 14 bytes (DF bits kept)
            if df_nbits(*df as u8).is_none() {
                for bit in 6..=112usize {
                    let mut b = buf.clone();
                    crate::bits::flip_bit(&mut b, bit);
                    for n in [7usize, 14, 32] {
                        loc.inc("length_cases");
                        accept_check(&b[..n], &mut loc);
                    }
                }
            }
            loc
        })
        .collect();
    merge(&run, locs, "extra_cases");

    // (3) prefix decides: every leaf's base frame under every context x 4 tails x every length
    let ctx7 = contexts(7, tier, run.seed);
    let ctx14 = contexts(14, tier, run.seed);
    let mut bases: Vec<Vec<u8>> = vec![];
    for l in &leaves {
        let cs = if l.nbits == 56 { &ctx7 } else { &ctx14 };
        for (_, c) in cs {
            let mut b = c.clone();
            for (f, w, v) in &l.fixed {
                set_bits(&mut b, *f as usize, *w as usize, *v);
            }
            bases.push(b);
        }
    }
    let locs: Vec<Local> = bases
        .par_iter()
        .map(|b| {
            let mut loc = Local::default();
            prefix_check(b, &mut loc);
            loc
        })
        .collect();
    merge(&run, locs, "extra_cases");

    // (4) type 31 subtype 0/1: all reserved-bit / version combinations x contexts
    let mut ops: Vec<Vec<u8>> = vec![];
    for df in [17u64, 18] {
        for stv in [0u64, 1] {
            for (_, c) in &ctx14 {
                for r1 in 0u64..4 {
                    for r2 in 0u64..4 {
                        for r3 in 0u64..4 {
                            for ver in 0u64..8 {
                                let mut b = c.clone();
                                set_bits(&mut b, 1, 5, df);
                                set_bits(&mut b, 33, 5, 31);
                                set_bits(&mut b, 38, 3, stv);
                                set_bits(&mut b, 41, 2, r1);
                                if stv == 0 {
                                    set_bits(&mut b, 45, 2, r2);
                                } else if r2 != 0 {
                                    continue;
                                }
                                set_bits(&mut b, 57, 2, r3);
                                set_bits(&mut b, 73, 3, ver);
                                ops.push(b);
                            }
                        }
                    }
                }
            }
        }
    }
    let locs: Vec<Local> = ops
        .par_chunks(512)
        .map(|chunk| {
            let mut loc = Local::default();
            for b in chunk {
                loc.inc("opstatus_cases");
                accept_check(b, &mut loc);
                // a frame with clean reserved bits and version 0..2 must be accepted: covered by
                // accept_check (may_reject false); record which ones were rejected by permission
            }
            loc
        })
        .collect();
    merge(&run, locs, "extra_cases");

    run.sample(json!({"kind": "length sweep", "df": 19, "lengths": "0..=32", "context": "0x55", "expect": "Err below 14 bytes, Ok from 14"}));
    run.sample(json!({"kind": "prefix decides", "frame": hex(&bases[0]), "tails": ["00", "ff", "55", "repeat"], "lengths": "0..=32"}));
    run.sample(json!({"kind": "op-status gate", "example": hex(&ops[ops.len() / 2])}));
    run.add("nontrivial_extra", run.get("predicted_rejections"));
    let cov = e1_coverage(
        &run,
        &st,
        "acceptance predicate on: every leaf x context (base, bit-walk, field sweeps); 32 DF codes x buffer lengths 0..=32 x contexts (+ bit-walk for rejected formats); every leaf base x 4 garbage tails x lengths 0..=32 with exact-vs-extended equality; all reserved-bit/version combinations of type 31 subtype 0/1. Non-trivial = accepted frames plus predicted rejections that the subject rejected",
        true,
    );
    run.finish(
        "exploration",
        cov,
        vec![
            "acceptance set = DESIGN.md 3 C02: DF {0,4,5,11} with >= 7 bytes, DF {16..21, 24..31} with >= 14 bytes; the rejection set is characterised exactly: type 31 subtype 0/1 with non-zero reserved bits (ME 9-10, 13-14 airborne, 25-26) or version > 2 is rejected, nothing else is".into(),
            "payload bits are explored through the context alphabet and bit-walks, not all 2^112 values".into(),
        ],
    )
}

fn merge(run: &Run, locs: Vec<Local>, total_counter: &str) {
    for loc in locs {
        let n = loc.counts.get("decodes").copied().unwrap_or(0);
        run.add(total_counter, n);
        run.merge_counts(&loc.counts);
        run.merge_outcomes(&loc.outcomes);
        for v in loc.viols {
            run.violation(v);
        }
    }
}
