//! R-frame: reference bit-slice decoder written from the Annex 10 / DO-260B layouts (DESIGN.md
//! Appendix A), independent of the subject's code. `layout()` maps the dispatch bits of a frame to
//! a leaf (dispatch path) and its field table; `ref_decode()` slices and scales every field.

use crate::bits::get_bits;

#[derive(Clone, Debug, PartialEq)]
pub enum V {
    U(u64),
    I(i64),
    F(f64),
    S(String),
    /// several acceptable readings of the statement (weakest reading wins)
    AnyOf(Vec<V>),
}

impl V {
    pub fn show(&self) -> String {
        match self {
            V::U(u) => format!("{u}"),
            V::I(i) => format!("{i}"),
            V::F(f) => format!("{f}"),
            V::S(s) => format!("{s:?}"),
            V::AnyOf(vs) => format!("anyof[{}]", vs.iter().map(|v| v.show()).collect::<Vec<_>>().join(",")),
        }
    }
    /// Does the observed value `obs` satisfy this expected value?
    pub fn accepts(&self, obs: &V) -> bool {
        match (self, obs) {
            (V::AnyOf(vs), o) => vs.iter().any(|v| v.accepts(o)),
            (V::F(a), V::F(b)) => (a - b).abs() <= 1e-4 * (1.0 + a.abs() * 1e-3),
            (a, b) => a == b,
        }
    }
}

#[derive(Clone, Copy, Debug, PartialEq)]
pub enum Kind {
    Raw,
    Ac13,
    Ac12,
    Id13,
    Callsign,
    /// raw-1, 0 for raw 0 (airspeed)
    Minus1,
    /// (raw-1)*25, 0 for raw 0/1
    Diff25,
    /// (N-1)*32, 0 for N = 0
    TssAlt,
    /// 800 + (N-1)*0.8, 0 for N = 0
    TssQnh,
    /// N*180/256
    TssHdg,
    /// type code 1-4 shown as D, C, B, A
    TcLetter,
    /// opaque bytes: only presence is judged
    Opaque,
}

#[derive(Clone, Copy, Debug)]
pub struct FieldDef {
    pub name: &'static str,
    /// 1-based first frame bit
    pub first: u16,
    pub width: u8,
    /// owning property (4, 6, 7, 8, 9, 10); 0 = dispatch / not judged
    pub prop: u8,
    pub kind: Kind,
}

const fn f(name: &'static str, first: u16, width: u8, prop: u8) -> FieldDef {
    FieldDef { name, first, width, prop, kind: Kind::Raw }
}
const fn fk(name: &'static str, first: u16, width: u8, prop: u8, kind: Kind) -> FieldDef {
    FieldDef { name, first, width, prop, kind }
}

#[derive(Clone, Debug, PartialEq)]
pub enum Reject {
    /// DF code not in the supported set
    Format,
    /// buffer shorter than the format requires
    Short,
}

#[derive(Clone, Debug)]
pub struct Layout {
    pub leaf: String,
    pub df: u8,
    pub nbits: usize,
    pub fields: Vec<FieldDef>,
    /// the statement permits (does not require) rejection: op-status reserved bits / version
    pub may_reject: bool,
    /// fields that pin the dispatch path: (first, width)
    pub dispatch: Vec<(u16, u8)>,
}

pub fn df_nbits(df: u8) -> Option<usize> {
    match df {
        0 | 4 | 5 | 11 => Some(56),
        16..=21 | 24..=31 => Some(112),
        _ => None,
    }
}

/// ME (frame bits 33..88) field table; `me` = 32 (bit offset).
fn me_layout(bytes: &[u8], leaf: &mut String, fields: &mut Vec<FieldDef>, may_reject: &mut bool, dispatch: &mut Vec<(u16, u8)>) {
    const M: u16 = 32;
    let tc = get_bits(bytes, 33, 5) as u8;
    dispatch.push((33, 5));
    fields.push(f("me.tc", M + 1, 5, 0));
    match tc {
        0 | 23 | 24 | 25..=27 | 30 => {
            leaf.push_str(&format!("/TC{tc}"));
            fields.push(fk("me.opaque", M + 6, 51, 0, Kind::Opaque));
        }
        1..=4 => {
            leaf.push_str(&format!("/TC{tc}"));
            fields.push(fk("me.ident.tc_letter", M + 1, 5, 8, Kind::TcLetter));
            fields.push(f("me.ident.ca", M + 6, 3, 8));
            fields.push(fk("me.ident.cn", M + 9, 48, 8, Kind::Callsign));
        }
        5..=8 => {
            leaf.push_str(&format!("/TC{tc}"));
            fields.push(f("me.surf.mov", M + 6, 7, 10));
            fields.push(f("me.surf.s", M + 13, 1, 10));
            fields.push(f("me.surf.trk", M + 14, 7, 10));
            fields.push(f("me.surf.t", M + 21, 1, 10));
            fields.push(f("me.surf.f", M + 22, 1, 10));
            fields.push(f("me.surf.lat_cpr", M + 23, 17, 10));
            fields.push(f("me.surf.lon_cpr", M + 40, 17, 10));
        }
        9..=18 | 20..=22 => {
            leaf.push_str(&format!("/TC{tc}"));
            fields.push(f("me.pos.tc", M + 1, 5, 10));
            fields.push(f("me.pos.ss", M + 6, 2, 10));
            fields.push(f("me.pos.saf", M + 8, 1, 10));
            fields.push(fk("me.pos.alt", M + 9, 12, 6, Kind::Ac12));
            fields.push(f("me.pos.t", M + 21, 1, 10));
            fields.push(f("me.pos.f", M + 22, 1, 10));
            fields.push(f("me.pos.lat_cpr", M + 23, 17, 10));
            fields.push(f("me.pos.lon_cpr", M + 40, 17, 10));
        }
        19 => {
            let st = get_bits(bytes, (M + 6) as usize, 3) as u8;
            dispatch.push((M + 6, 3));
            leaf.push_str(&format!("/TC19/ST{st}"));
            fields.push(f("me.vel.st", M + 6, 3, 7));
            // which payload variant the subtype selects (0 reserved, 1-2 ground speed, 3-4 airspeed, 5-7 reserved)
            fields.push(f("me.vel.kind", M + 6, 3, 7));
            fields.push(f("me.vel.nac_v", M + 11, 3, 7));
            match st {
                1 | 2 => {
                    fields.push(f("me.vel.ew_sign", M + 14, 1, 7));
                    fields.push(f("me.vel.ew_vel", M + 15, 10, 7));
                    fields.push(f("me.vel.ns_sign", M + 25, 1, 7));
                    fields.push(f("me.vel.ns_vel", M + 26, 10, 7));
                }
                3 | 4 => {
                    fields.push(f("me.vel.status_heading", M + 14, 1, 7));
                    fields.push(f("me.vel.mag_heading", M + 15, 10, 7));
                    fields.push(f("me.vel.airspeed_type", M + 25, 1, 7));
                    fields.push(fk("me.vel.airspeed", M + 26, 10, 7, Kind::Minus1));
                }
                _ => {
                    // reserved subtypes: the 22 bits have no standard meaning, observed but not judged
                    fields.push(f("me.vel.reserved22", M + 14, 22, 0));
                }
            }
            fields.push(f("me.vel.vrate_src", M + 36, 1, 7));
            fields.push(f("me.vel.vrate_sign", M + 37, 1, 7));
            fields.push(f("me.vel.vrate_value", M + 38, 9, 7));
            fields.push(f("me.vel.gnss_sign", M + 49, 1, 7));
            fields.push(fk("me.vel.gnss_baro_diff", M + 50, 7, 7, Kind::Diff25));
        }
        28 => {
            leaf.push_str("/TC28");
            fields.push(f("me.status.sub_type", M + 6, 3, 9));
            fields.push(f("me.status.emergency", M + 9, 3, 9));
            fields.push(fk("me.status.squawk", M + 12, 13, 9, Kind::Id13));
        }
        29 => {
            leaf.push_str("/TC29");
            fields.push(f("me.tss.subtype", M + 6, 2, 10));
            fields.push(f("me.tss.alt_type", M + 9, 1, 10));
            fields.push(fk("me.tss.altitude", M + 10, 11, 10, Kind::TssAlt));
            fields.push(fk("me.tss.qnh", M + 21, 9, 10, Kind::TssQnh));
            fields.push(f("me.tss.is_heading", M + 30, 1, 10));
            fields.push(fk("me.tss.heading", M + 31, 9, 10, Kind::TssHdg));
            fields.push(f("me.tss.nacp", M + 40, 4, 10));
            fields.push(f("me.tss.nicbaro", M + 44, 1, 10));
            fields.push(f("me.tss.sil", M + 45, 2, 10));
            fields.push(f("me.tss.mode_validity", M + 47, 1, 10));
            fields.push(f("me.tss.autopilot", M + 48, 1, 10));
            fields.push(f("me.tss.vnav", M + 49, 1, 10));
            fields.push(f("me.tss.alt_hold", M + 50, 1, 10));
            fields.push(f("me.tss.imf", M + 51, 1, 10));
            fields.push(f("me.tss.approach", M + 52, 1, 10));
            fields.push(f("me.tss.tcas", M + 53, 1, 10));
            fields.push(f("me.tss.lnav", M + 54, 1, 10));
        }
        31 => {
            let st = get_bits(bytes, (M + 6) as usize, 3) as u8;
            dispatch.push((M + 6, 3));
            leaf.push_str(&format!("/TC31/ST{st}"));
            fields.push(f("me.ops.st", M + 6, 3, 10));
            match st {
                0 => {
                    let bad = get_bits(bytes, (M + 9) as usize, 2) != 0
                        || get_bits(bytes, (M + 13) as usize, 2) != 0
                        || get_bits(bytes, (M + 25) as usize, 2) != 0
                        || get_bits(bytes, (M + 41) as usize, 3) > 2;
                    *may_reject = bad;
                    dispatch.push((M + 9, 2));
                    dispatch.push((M + 13, 2));
                    dispatch.push((M + 25, 2));
                    dispatch.push((M + 41, 3));
                    fields.push(f("me.ops.cc.acas", M + 11, 1, 10));
                    fields.push(f("me.ops.cc.cdti", M + 12, 1, 10));
                    fields.push(f("me.ops.cc.arv", M + 15, 1, 10));
                    fields.push(f("me.ops.cc.ts", M + 16, 1, 10));
                    fields.push(f("me.ops.cc.tc", M + 17, 2, 10));
                    fields.push(f("me.ops.om.tcas_ra", M + 27, 1, 10));
                    fields.push(f("me.ops.om.ident", M + 28, 1, 10));
                    fields.push(f("me.ops.om.atc", M + 29, 1, 10));
                    fields.push(f("me.ops.om.saf", M + 30, 1, 10));
                    fields.push(f("me.ops.om.sda", M + 31, 2, 10));
                    fields.push(f("me.ops.version", M + 41, 3, 10));
                    fields.push(f("me.ops.nic_a", M + 44, 1, 10));
                    fields.push(f("me.ops.nacp", M + 45, 4, 10));
                    fields.push(f("me.ops.gva", M + 49, 2, 10));
                    fields.push(f("me.ops.sil", M + 51, 2, 10));
                    fields.push(f("me.ops.nicbaro", M + 53, 1, 10));
                    fields.push(f("me.ops.hrd", M + 54, 1, 10));
                    fields.push(f("me.ops.sil_supp", M + 55, 1, 10));
                }
                1 => {
                    let bad = get_bits(bytes, (M + 9) as usize, 2) != 0
                        || get_bits(bytes, (M + 25) as usize, 2) != 0
                        || get_bits(bytes, (M + 41) as usize, 3) > 2;
                    *may_reject = bad;
                    dispatch.push((M + 9, 2));
                    dispatch.push((M + 25, 2));
                    dispatch.push((M + 41, 3));
                    fields.push(f("me.ops.cc.poa", M + 11, 1, 10));
                    fields.push(f("me.ops.cc.es1090", M + 12, 1, 10));
                    fields.push(f("me.ops.cc.b2_low", M + 15, 1, 10));
                    fields.push(f("me.ops.cc.uat_in", M + 16, 1, 10));
                    fields.push(f("me.ops.cc.nac_v", M + 17, 3, 10));
                    fields.push(f("me.ops.cc.nic_c", M + 20, 1, 10));
                    fields.push(f("me.ops.lw", M + 21, 4, 10));
                    fields.push(f("me.ops.om.tcas_ra", M + 27, 1, 10));
                    fields.push(f("me.ops.om.ident", M + 28, 1, 10));
                    fields.push(f("me.ops.om.atc", M + 29, 1, 10));
                    fields.push(f("me.ops.om.saf", M + 30, 1, 10));
                    fields.push(f("me.ops.om.sda", M + 31, 2, 10));
                    fields.push(f("me.ops.gps_offset", M + 33, 8, 10));
                    fields.push(f("me.ops.version", M + 41, 3, 10));
                    fields.push(f("me.ops.nic_a", M + 44, 1, 10));
                    fields.push(f("me.ops.nacp", M + 45, 4, 10));
                    fields.push(f("me.ops.sil", M + 51, 2, 10));
                    fields.push(f("me.ops.nicbaro", M + 53, 1, 10));
                    fields.push(f("me.ops.hrd", M + 54, 1, 10));
                    fields.push(f("me.ops.sil_supp", M + 55, 1, 10));
                }
                _ => {
                    fields.push(fk("me.opaque", M + 9, 48, 0, Kind::Opaque));
                }
            }
        }
        _ => unreachable!(),
    }
}

/// MB (frame bits 33..88) field table for DF20/21.
fn mb_layout(bytes: &[u8], leaf: &mut String, fields: &mut Vec<FieldDef>, dispatch: &mut Vec<(u16, u8)>) {
    const M: u16 = 32;
    let id = get_bits(bytes, 33, 8) as u8;
    dispatch.push((33, 8));
    match id {
        0x00 => {
            leaf.push_str("/BDS00");
            fields.push(f("mb.kind", M + 1, 8, 10));
        }
        0x10 => {
            leaf.push_str("/BDS10");
            fields.push(f("mb.kind", M + 1, 8, 10));
            fields.push(f("mb.dlc.continuation", M + 9, 1, 10));
            fields.push(f("mb.dlc.overlay", M + 15, 1, 10));
            fields.push(f("mb.dlc.acas", M + 16, 1, 10));
            fields.push(f("mb.dlc.subnet_version", M + 17, 7, 10));
            fields.push(f("mb.dlc.enhanced", M + 24, 1, 10));
            fields.push(f("mb.dlc.specific_services", M + 25, 1, 10));
            fields.push(f("mb.dlc.uelm", M + 26, 3, 10));
            fields.push(f("mb.dlc.delm", M + 29, 4, 10));
            fields.push(f("mb.dlc.ident_cap", M + 33, 1, 10));
            fields.push(f("mb.dlc.squitter_cap", M + 34, 1, 10));
            fields.push(f("mb.dlc.sic", M + 35, 1, 10));
            fields.push(f("mb.dlc.gicb", M + 36, 1, 10));
            fields.push(f("mb.dlc.acas4", M + 37, 4, 10));
            fields.push(f("mb.dlc.bit_array", M + 41, 16, 10));
        }
        0x20 => {
            leaf.push_str("/BDS20");
            fields.push(f("mb.kind", M + 1, 8, 10));
            fields.push(fk("mb.ident", M + 9, 48, 8, Kind::Callsign));
        }
        _ => {
            leaf.push_str("/BDSxx");
            // the kind observed is "unknown" and the id byte is kept
            fields.push(f("mb.unknown_id", M + 1, 8, 10));
        }
    }
}

/// Dispatch on the frame's own bits. `bytes` may be longer than the frame (trailing garbage).
pub fn layout(bytes: &[u8]) -> Result<Layout, Reject> {
    if bytes.is_empty() {
        return Err(Reject::Short);
    }
    let df = (bytes[0] >> 3) & 0x1f;
    let Some(nbits) = df_nbits(df) else { return Err(Reject::Format) };
    if bytes.len() * 8 < nbits {
        return Err(Reject::Short);
    }
    let mut leaf = format!("DF{df}");
    let mut fields: Vec<FieldDef> = vec![];
    let mut may_reject = false;
    let mut dispatch: Vec<(u16, u8)> = vec![(1, 5)];
    match df {
        0 => {
            fields.push(f("vs", 6, 1, 4));
            fields.push(f("cc", 7, 1, 4));
            fields.push(f("sl", 9, 3, 4));
            fields.push(f("ri", 14, 4, 4));
            fields.push(fk("ac13", 20, 13, 6, Kind::Ac13));
            fields.push(f("ap", 33, 24, 4));
        }
        4 | 5 => {
            fields.push(f("fs", 6, 3, 4));
            fields.push(f("dr", 9, 5, 4));
            fields.push(f("iis", 14, 4, 4));
            fields.push(f("ids", 18, 2, 4));
            if df == 4 {
                fields.push(fk("ac13", 20, 13, 6, Kind::Ac13));
            } else {
                fields.push(fk("id13", 20, 13, 9, Kind::Id13));
            }
            fields.push(f("ap", 33, 24, 4));
        }
        11 => {
            fields.push(f("ca", 6, 3, 4));
            fields.push(f("aa", 9, 24, 4));
            fields.push(f("pi", 33, 24, 4));
        }
        16 => {
            fields.push(f("vs", 6, 1, 4));
            fields.push(f("sl", 9, 3, 4));
            fields.push(f("ri", 14, 4, 4));
            fields.push(fk("ac13", 20, 13, 6, Kind::Ac13));
            for i in 0..7u16 {
                const NAMES: [&str; 7] = ["mv0", "mv1", "mv2", "mv3", "mv4", "mv5", "mv6"];
                fields.push(f(NAMES[i as usize], 33 + 8 * i, 8, 4));
            }
            fields.push(f("ap", 89, 24, 4));
        }
        17 | 18 => {
            if df == 17 {
                fields.push(f("ca", 6, 3, 4));
            } else {
                fields.push(f("cf", 6, 3, 4));
            }
            fields.push(f("aa", 9, 24, 4));
            me_layout(bytes, &mut leaf, &mut fields, &mut may_reject, &mut dispatch);
            fields.push(f("pi", 89, 24, 4));
        }
        19 => {
            fields.push(f("af", 6, 3, 4));
        }
        20 | 21 => {
            fields.push(f("fs", 6, 3, 4));
            fields.push(f("dr", 9, 5, 4));
            fields.push(f("iis", 14, 4, 4));
            fields.push(f("ids", 18, 2, 4));
            if df == 20 {
                fields.push(fk("ac13", 20, 13, 6, Kind::Ac13));
            } else {
                fields.push(fk("id13", 20, 13, 9, Kind::Id13));
            }
            mb_layout(bytes, &mut leaf, &mut fields, &mut dispatch);
            if df == 21 {
                fields.push(f("ap", 89, 24, 4));
            }
        }
        24..=31 => {
            fields.push(f("x.df", 1, 5, 4));
            fields.push(f("ca", 6, 3, 4));
            fields.push(f("aa", 9, 24, 4));
            // type / data are not named by any statement: observed, not judged
            fields.push(f("x.type_code", 33, 5, 0));
            fields.push(f("x.data", 38, 51, 0));
            fields.push(f("pi", 89, 24, 4));
        }
        _ => unreachable!(),
    }
    Ok(Layout { leaf, df, nbits, fields, may_reject, dispatch })
}

// ---------------------------------------------------------------- field interpretation

/// Gillham table built from the *definition* by encoding every legal altitude (DESIGN 2.3 R-alt):
/// altitude = 500*fh + 100*oh - 1300, fh reflected-binary Gray over D2 D4 A1 A2 A4 B1 B2 B4,
/// oh in 1..=5 coded on C1 C2 C4 as 001 011 010 110 100, mirrored when fh is odd.
/// Index: 13-bit field (C1 A1 C2 A2 C4 A4 M B1 D1 B2 D2 B4 D4); value: altitude in ft or i32::MIN.
pub fn gillham_table() -> &'static Vec<i32> {
    use std::sync::OnceLock;
    static T: OnceLock<Vec<i32>> = OnceLock::new();
    T.get_or_init(|| {
        let mut t = vec![i32::MIN; 8192];
        for fh in 0u32..256 {
            for oh in 1u32..=5 {
                let alt = 500 * fh as i32 + 100 * oh as i32 - 1300;
                let g = fh ^ (fh >> 1); // 8 bits: D2 D4 A1 A2 A4 B1 B2 B4 (msb first)
                let d2 = (g >> 7) & 1;
                let d4 = (g >> 6) & 1;
                let a1 = (g >> 5) & 1;
                let a2 = (g >> 4) & 1;
                let a4 = (g >> 3) & 1;
                let b1 = (g >> 2) & 1;
                let b2 = (g >> 1) & 1;
                let b4 = g & 1;
                let ohc = if fh % 2 == 1 { 6 - oh } else { oh };
                let (c1, c2, c4) = match ohc {
                    1 => (0, 0, 1),
                    2 => (0, 1, 1),
                    3 => (0, 1, 0),
                    4 => (1, 1, 0),
                    5 => (1, 0, 0),
                    _ => unreachable!(),
                };
                // field order msb..lsb: C1 A1 C2 A2 C4 A4 M B1 D1 B2 D2 B4 D4
                let bits = [c1, a1, c2, a2, c4, a4, 0, b1, 0, b2, d2, b4, d4];
                let mut code = 0usize;
                for b in bits {
                    code = (code << 1) | b as usize;
                }
                assert_eq!(t[code], i32::MIN, "gillham encoding not injective");
                t[code] = alt;
            }
        }
        t
    })
}

/// Reference altitude in feet for a 13-bit altitude code; None = "no altitude".
pub fn ref_ac13(code: u64) -> Option<i64> {
    let code = code as usize & 0x1fff;
    if code == 0 {
        return None;
    }
    let m = (code >> 6) & 1;
    let q = (code >> 4) & 1;
    if m == 1 {
        return None;
    }
    let alt: i64 = if q == 1 {
        let n = ((code & 0x1f80) >> 2) | ((code & 0x0020) >> 1) | (code & 0x000f);
        25 * n as i64 - 1000
    } else {
        let a = gillham_table()[code];
        if a == i32::MIN {
            return None;
        }
        i64::from(a)
    };
    if alt > 0 && alt <= 65535 {
        Some(alt)
    } else {
        None
    }
}

/// 12-bit altitude code = 13-bit code without the M bit.
pub fn ref_ac12(code: u64) -> Option<i64> {
    let code = code & 0xfff;
    let c13 = ((code & 0xfc0) << 1) | (code & 0x3f);
    ref_ac13(c13)
}

/// Identity code: field order C1 A1 C2 A2 C4 A4 X B1 D1 B2 D2 B4 D4 -> 0xABCD.
pub fn ref_id13(code: u64) -> u64 {
    let names = ["C1", "A1", "C2", "A2", "C4", "A4", "X", "B1", "D1", "B2", "D2", "B4", "D4"];
    let mut digit = [0u64; 4]; // A B C D
    for (i, n) in names.iter().enumerate() {
        let bit = (code >> (12 - i)) & 1;
        if bit == 0 || *n == "X" {
            continue;
        }
        let d = match n.as_bytes()[0] {
            b'A' => 0,
            b'B' => 1,
            b'C' => 2,
            _ => 3,
        };
        let w = u64::from(n.as_bytes()[1] - b'0');
        digit[d] |= w;
    }
    (digit[0] << 12) | (digit[1] << 8) | (digit[2] << 4) | digit[3]
}

/// Annex 10 Table 3-9 (6-bit subset of IA-5): 1-26 A-Z, 32 space, 48-57 digits.
pub fn ref_char(c: u64) -> char {
    match c {
        1..=26 => (b'A' + (c as u8 - 1)) as char,
        32 => ' ',
        48..=57 => (b'0' + (c as u8 - 48)) as char,
        _ => '#',
    }
}

pub fn ref_callsign(v48: u64) -> V {
    let chars: String = (0..8).map(|i| ref_char((v48 >> (42 - 6 * i)) & 0x3f)).collect();
    let no_spaces: String = chars.chars().filter(|c| *c != ' ').collect();
    let trim_end = chars.trim_end_matches(' ').to_string();
    let trim_both = chars.trim_matches(' ').to_string();
    let mut opts = vec![V::S(no_spaces)];
    for o in [trim_end, trim_both] {
        if !opts.contains(&V::S(o.clone())) {
            opts.push(V::S(o));
        }
    }
    if opts.len() == 1 {
        opts.pop().unwrap()
    } else {
        V::AnyOf(opts)
    }
}

pub fn interpret(kind: Kind, raw: u64) -> V {
    match kind {
        Kind::Raw => V::U(raw),
        // "no altitude" is 0 in the 13-bit carriers
        Kind::Ac13 => V::U(ref_ac13(raw).map_or(0, |a| a as u64)),
        // "no altitude" is None or Some(0) in the 12-bit carrier (statement: "0 / None")
        Kind::Ac12 => match ref_ac12(raw) {
            Some(a) => V::I(a),
            None => V::AnyOf(vec![V::I(-1), V::I(0)]),
        },
        Kind::Id13 => V::U(ref_id13(raw)),
        Kind::Callsign => ref_callsign(raw),
        Kind::Minus1 => V::U(raw.saturating_sub(1)),
        Kind::Diff25 => V::U(if raw > 1 { (raw - 1) * 25 } else { 0 }),
        Kind::TssAlt => V::U(if raw > 1 { (raw - 1) * 32 } else { 0 }),
        Kind::TssQnh => V::F(if raw == 0 { 0.0 } else { 800.0 + (raw as f64 - 1.0) * 0.8 }),
        Kind::TssHdg => V::F(raw as f64 * 180.0 / 256.0),
        Kind::TcLetter => V::S(match raw {
            1 => "D",
            2 => "C",
            3 => "B",
            4 => "A",
            _ => "?",
        }
        .to_string()),
        Kind::Opaque => V::U(0),
    }
}

#[derive(Clone, Debug)]
pub struct RefField {
    pub def: FieldDef,
    pub raw: u64,
    pub val: V,
}

#[derive(Clone, Debug)]
pub struct RefObs {
    pub layout: Layout,
    pub fields: Vec<RefField>,
}

impl RefObs {
    pub fn get(&self, name: &str) -> Option<&RefField> {
        self.fields.iter().find(|f| f.def.name == name)
    }
    pub fn raw(&self, name: &str) -> u64 {
        self.get(name).map(|f| f.raw).unwrap_or(0)
    }
}

pub fn ref_decode(bytes: &[u8]) -> Result<RefObs, Reject> {
    let layout = layout(bytes)?;
    let fields = layout
        .fields
        .iter()
        .map(|d| {
            let raw = get_bits(bytes, d.first as usize, d.width as usize);
            RefField { def: *d, raw, val: interpret(d.kind, raw) }
        })
        .collect();
    Ok(RefObs { layout, fields })
}
