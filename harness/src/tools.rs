//! Helper subcommands used by the E4 (apps) explorer: feed generation and the expected table.

use std::io::{BufRead, Read};

use adsb_deku::Frame;
use rsadsb_common::{Added, Airplanes};
use serde_json::{json, Value};

use crate::bits::unhex;
use crate::enc;

/// stdin: JSON list of specs; stdout: one `*hex;` line per spec.
///  {"kind":"ident","icao":"abcdef","callsign":"TEST1","tc":4,"cat":0}
///  {"kind":"pos","icao":"abcdef","lat":35.1,"lon":-80.2,"alt":10000,"odd":0,"tc":11}
///  {"kind":"vel","icao":"abcdef","east":100,"north":-200,"vrate":-640}
///  {"kind":"df11","icao":"abcdef"}   {"kind":"df18ident","icao":..,"callsign":..,"cf":0}
///  {"kind":"raw","hex":"8d..."}
pub fn mkfeed() -> i32 {
    let mut s = String::new();
    std::io::stdin().read_to_string(&mut s).unwrap();
    let v: Value = serde_json::from_str(&s).expect("mkfeed: stdin is not JSON");
    for spec in v.as_array().expect("mkfeed: expected a list") {
        let icao = u32::from_str_radix(spec["icao"].as_str().unwrap_or("0"), 16).unwrap_or(0);
        let bytes = match spec["kind"].as_str().unwrap_or("") {
            "ident" => enc::es_frame(
                17,
                spec["ca"].as_u64().unwrap_or(5),
                icao,
                enc::me_ident(spec["tc"].as_u64().unwrap_or(4), spec["cat"].as_u64().unwrap_or(0), spec["callsign"].as_str().unwrap_or("")),
            ),
            "df18ident" => enc::es_frame(
                18,
                spec["cf"].as_u64().unwrap_or(0),
                icao,
                enc::me_ident(4, 0, spec["callsign"].as_str().unwrap_or("")),
            ),
            "pos" => {
                let odd = spec["odd"].as_u64().unwrap_or(0) == 1;
                let (lat, lon) = (spec["lat"].as_f64().unwrap_or(0.0), spec["lon"].as_f64().unwrap_or(0.0));
                let tc = spec["tc"].as_u64().unwrap_or(11);
                // "ac12": the raw 12-bit altitude code instead of an altitude in feet (0 = no altitude, 0x20a = 0 ft)
                let me = match spec["ac12"].as_u64() {
                    Some(ac) => {
                        let (yz, xz) = crate::cprref::encode(lat, lon, odd);
                        enc::me_pos(tc, 0, 0, ac, 0, odd, yz, xz)
                    }
                    None => enc::me_pos_latlon(tc, spec["alt"].as_i64().unwrap_or(10000), odd, lat, lon),
                };
                enc::es_frame(17, spec["ca"].as_u64().unwrap_or(5), icao, me)
            }
            "vel" => enc::es_frame(
                17,
                5,
                icao,
                enc::me_vel_kt(spec["east"].as_i64().unwrap_or(0), spec["north"].as_i64().unwrap_or(0), spec["vrate"].as_i64().unwrap_or(0)),
            ),
            "df11" => enc::df11_frame(5, icao, 0),
            "raw" => unhex(spec["hex"].as_str().unwrap_or("")),
            k => panic!("mkfeed: unknown kind {k}"),
        };
        println!("{}", enc::line(&bytes));
    }
    0
}

/// stdin: payloads (hex, one per line); stdout: JSON {payload: [lines of the library's text rendering]} - what the 1090
/// client has to print after echoing a well-formed line (`println!("{frame}")`), taken from the library itself
pub fn render() -> i32 {
    let mut out = serde_json::Map::new();
    for l in std::io::stdin().lock().lines() {
        let l = l.unwrap();
        let h = l.trim();
        if h.is_empty() {
            continue;
        }
        let bytes = crate::bits::unhex(h);
        let v = match adsb_deku::Frame::from_bytes(&bytes) {
            Ok(f) => {
                let text = format!("{f}\n");
                let mut lines: Vec<String> = text.split('\n').map(str::to_string).collect();
                lines.pop(); // the piece after the final newline that println! adds
                serde_json::json!({"ok": true, "lines": lines})
            }
            Err(e) => serde_json::json!({"ok": false, "error": e.to_string()}),
        };
        out.insert(h.to_string(), v);
    }
    println!("{}", serde_json::Value::Object(out));
    0
}

/// args: lat long max_range; stdin: feed lines (`*hex;`); stdout: JSON with the rows the Airplanes
/// tab has to show and the statistics counters, computed by the real decoder + real tracker.
pub fn feed2table(args: &[String]) -> i32 {
    let lat: f64 = args.first().and_then(|s| s.parse().ok()).unwrap_or(0.0);
    let long: f64 = args.get(1).and_then(|s| s.parse().ok()).unwrap_or(0.0);
    let max_range: f64 = args.get(2).and_then(|s| s.parse().ok()).unwrap_or(500.0);
    let mut planes = Airplanes::new();
    let mut added = 0u64;
    let mut most = 0usize;
    let mut processed = 0u64;
    for l in std::io::stdin().lock().lines() {
        let l = l.unwrap();
        let l = l.trim();
        if !(l.starts_with('*') && l.ends_with(';')) {
            continue;
        }
        let h = &l[1..l.len() - 1];
        if h.len() % 2 != 0 || !h.chars().all(|c| c.is_ascii_hexdigit()) {
            continue;
        }
        let bytes = unhex(h);
        if bytes.iter().all(|b| *b == 0) {
            continue;
        }
        if let Ok(frame) = Frame::from_bytes(&bytes) {
            processed += 1;
            if planes.action(frame, (lat, long), max_range) == Added::Yes {
                added += 1;
            }
            most = most.max(planes.len());
        }
    }
    let mut rows = vec![];
    for key in planes.keys() {
        let st = planes.get(*key).unwrap();
        let d = planes.aircraft_details(*key);
        let (slat, slon, salt, sdist) = match &d {
            Some(d) => (
                format!("{:.3}", d.position.latitude),
                format!("{:.3}", d.position.longitude),
                d.altitude.to_string(),
                format!("{:.3}", d.kilo_distance),
            ),
            None => (String::new(), String::new(), String::new(), String::new()),
        };
        rows.push(json!({
            "icao": key.to_string(),
            "callsign": st.callsign.clone().unwrap_or_default(),
            "lat": slat, "lon": slon, "alt": salt, "dist": sdist,
            "heading": st.heading.map(|h| format!("{h:.1}")).unwrap_or_default(),
            "fpm": st.vert_speed.map(|v| v.to_string()).unwrap_or_default(),
            "speed": st.speed.map(|v| format!("{v:.0}")).unwrap_or_default(),
            "msgs": st.num_messages,
            "raw": {
                "lat": d.as_ref().map(|d| d.position.latitude),
                "lon": d.as_ref().map(|d| d.position.longitude),
                "dist": d.as_ref().map(|d| d.kilo_distance),
            }
        }));
    }
    println!(
        "{}",
        json!({"rows": rows, "len": planes.len(), "added_events": added, "max_simultaneous": most, "frames_decoded": processed})
    );
    0
}
