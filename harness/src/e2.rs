//! E2: explicit-state exploration (stateright BFS) of the real `rsadsb_common::Airplanes` tracker
//! driven one event per transition, next to a reference tracker (R-track). Serves C12-C15.

use std::collections::BTreeMap;
use std::hash::{Hash, Hasher};
use std::sync::atomic::{AtomicU64, Ordering};
use std::sync::Arc;

use adsb_deku::adsb::ME;
use adsb_deku::cpr::get_position;
use adsb_deku::{Altitude, CPRFormat, Frame, DF, ICAO};
use rsadsb_common::{Added, AirplaneCoor, Airplanes};
use serde_json::json;
use stateright::{Checker, Model, Property};

use crate::common::{guarded, last_panic_loc, Run, Tier, Violation};
use crate::cprref::haversine_km;
use crate::enc;
use crate::proj::icao_u32;
use crate::vclock;

pub use crate::alpha::*;

// ------------------------------------------------------------------ reference tracker
#[derive(Clone, Debug, Default, PartialEq)]
pub struct MRec {
    pub count: u32,
    pub callsign: Option<String>,
    pub heading: Option<u32>,
    pub speed: Option<u32>,
    pub vrate: Option<i16>,
    pub even: Option<Altitude>,
    pub odd: Option<Altitude>,
    pub position: Option<(u64, u64)>,
    pub dist: Option<f64>,
    /// publication events that are no longer current, in order: (position, must be in the track).
    /// An event is required in the track when it was directly superseded by an accepted publication of a
    /// different position; events lost through a clear, or re-published unchanged, are optional.
    pub published: Vec<((u64, u64), bool)>,
    pub last_heard: u64,
}

#[derive(Clone, Debug, Default, PartialEq)]
pub struct MState {
    pub recs: BTreeMap<u32, MRec>,
}

// ------------------------------------------------------------------ canonical projection of the real tracker
fn put_alt(out: &mut Vec<u8>, a: &Option<Altitude>) {
    match a {
        None => out.push(0),
        Some(a) => {
            out.push(1);
            out.push(a.tc);
            out.push(a.saf_or_imf);
            out.extend_from_slice(&a.alt.map_or(0xffff_ffffu32, u32::from).to_le_bytes());
            out.push(u8::from(a.t));
            out.push(u8::from(a.odd_flag == CPRFormat::Odd));
            out.extend_from_slice(&a.lat_cpr.to_le_bytes());
            out.extend_from_slice(&a.lon_cpr.to_le_bytes());
        }
    }
}

fn put_f64(out: &mut Vec<u8>, v: Option<f64>) {
    match v {
        None => out.push(0),
        Some(x) => {
            out.push(1);
            out.extend_from_slice(&x.to_bits().to_le_bytes());
        }
    }
}

fn put_coor(out: &mut Vec<u8>, c: &AirplaneCoor) {
    put_alt(out, &c.altitudes[0]);
    put_alt(out, &c.altitudes[1]);
    put_f64(out, c.position.map(|p| p.latitude));
    put_f64(out, c.position.map(|p| p.longitude));
    put_f64(out, c.kilo_distance);
}

fn sys_ns(t: std::time::SystemTime) -> u64 {
    t.duration_since(std::time::UNIX_EPOCH).map(|d| d.as_nanos() as u64).unwrap_or(0)
}

/// Canonical bytes of one aircraft record. `times`: 0 = no timestamps, 1 = raw timestamps,
/// 2 = ages relative to `now_abs`.
fn canon_rec(out: &mut Vec<u8>, key: &ICAO, st: &rsadsb_common::AirplaneState, times: u8, now_abs: u64) {
    out.extend_from_slice(&key.0);
    out.extend_from_slice(&u64::from(st.num_messages).to_le_bytes());
    match &st.callsign {
        None => out.push(0),
        Some(s) => {
            out.push(1);
            out.push(s.len() as u8);
            out.extend_from_slice(s.as_bytes());
        }
    }
    out.extend_from_slice(&st.heading.map_or(u32::MAX, f32::to_bits).to_le_bytes());
    out.extend_from_slice(&st.speed.map_or(u32::MAX, f32::to_bits).to_le_bytes());
    out.extend_from_slice(&st.vert_speed.map_or(i32::MAX, i32::from).to_le_bytes());
    out.push(st.squawk.is_some() as u8);
    out.push(st.on_ground.is_some() as u8);
    put_coor(out, &st.coords);
    match &st.track {
        None => out.push(0),
        Some(t) => {
            out.push(1);
            out.extend_from_slice(&(t.len() as u32).to_le_bytes());
            for c in t {
                put_coor(out, c);
            }
        }
    }
    if times > 0 {
        let lt = sys_ns(st.last_time);
        let v = if times == 1 { lt } else { now_abs.wrapping_sub(lt) };
        out.extend_from_slice(&v.to_le_bytes());
        match st.coords.last_time {
            None => out.push(0),
            Some(t) => {
                out.push(1);
                let x = sys_ns(t);
                let v = if times == 1 { x } else { now_abs.wrapping_sub(x) };
                out.extend_from_slice(&v.to_le_bytes());
            }
        }
    }
}

pub fn canon_real(p: &Airplanes, times: u8, now_abs: u64) -> Vec<u8> {
    let mut out = Vec::with_capacity(256);
    for (k, st) in p.iter() {
        canon_rec(&mut out, k, st, times, now_abs);
        out.push(0xfe);
    }
    out
}

fn canon_each(p: &Airplanes, times: u8, now_abs: u64) -> BTreeMap<u32, Vec<u8>> {
    p.iter()
        .map(|(k, st)| {
            let mut o = vec![];
            canon_rec(&mut o, k, st, times, now_abs);
            (icao_u32(k), o)
        })
        .collect()
}

// ------------------------------------------------------------------ state
#[derive(Clone)]
pub struct St {
    pub real: Airplanes,
    pub model: MState,
    pub now: u64,
    pub depth: u16,
    /// (property, oracle, expected, observed) of the transition that produced this state
    pub viol: Vec<(u8, String, String, String)>,
    /// event indices that led here (not part of the key)
    pub hist: Vec<u16>,
    /// return value of the last action()
    pub last_added: bool,
    /// receiver location currently passed to action()
    pub rx: (f64, f64),
    /// the event history is part of the key: no two paths merge (for state the public API cannot show)
    pub path_key: bool,
    key: Arc<Vec<u8>>,
}

impl St {
    fn rekey(&mut self) {
        let mut k = canon_real(&self.real, 2, vclock::EPOCH_NS + self.now);
        k.extend_from_slice(&self.depth.to_le_bytes());
        // the model is part of the key: a wrong real state must not merge into a right one
        for (a, r) in &self.model.recs {
            k.extend_from_slice(&a.to_le_bytes());
            k.extend_from_slice(&r.count.to_le_bytes());
            k.extend_from_slice(&(r.published.len() as u32).to_le_bytes());
            k.extend_from_slice(&(self.now - r.last_heard).to_le_bytes());
            if let Some(p) = r.position {
                k.extend_from_slice(&p.0.to_le_bytes());
            }
            k.push(r.even.is_some() as u8 | (r.odd.is_some() as u8) << 1);
        }
        k.extend_from_slice(&self.rx.0.to_bits().to_le_bytes());
        k.extend_from_slice(&self.rx.1.to_bits().to_le_bytes());
        if self.path_key {
            for h in &self.hist {
                k.extend_from_slice(&h.to_le_bytes());
            }
        }
        k.push(self.viol.len() as u8);
        for v in &self.viol {
            k.push(v.0);
            k.extend_from_slice(v.1.as_bytes());
        }
        self.key = Arc::new(k);
    }
}

impl PartialEq for St {
    fn eq(&self, o: &Self) -> bool {
        self.key == o.key
    }
}
impl Eq for St {}
impl Hash for St {
    fn hash<H: Hasher>(&self, h: &mut H) {
        self.key.hash(h);
    }
}
impl std::fmt::Debug for St {
    fn fmt(&self, f: &mut std::fmt::Formatter<'_>) -> std::fmt::Result {
        write!(f, "St(depth={}, aircraft={}, viol={:?})", self.depth, self.real.len(), self.viol)
    }
}

// ------------------------------------------------------------------ the model
pub struct Tracker {
    pub alphabet: Vec<Ev>,
    pub rx: (f64, f64),
    pub range: f64,
    /// virtual time added before every frame event (0 in the expiry model, where waits are explicit)
    pub frame_step_ns: u64,
    /// which property's oracles decide (12, 13, 14, 15)
    pub prop: u8,
    /// explore paths, not states (see St::path_key)
    pub path_key: bool,
    pub transitions: Arc<AtomicU64>,
    pub witnesses: Arc<BTreeMap<&'static str, AtomicU64>>,
    pub ambiguous: Arc<AtomicU64>,
    pub max_depth: Arc<AtomicU64>,
    /// violations recorded at generation time: (history, oracle, expected, observed)
    pub found: Arc<std::sync::Mutex<Vec<(Vec<u16>, String, String, String)>>>,
}

const WITNESS_NAMES: &[&str] = &[
    "added", "not_added", "non_es_ignored", "df18", "publish", "range_reject", "jump_reject", "undecodable_pair_clear",
    "republish_after_clear", "callsign_change", "velocity_update", "velocity_no_information", "track_push", "details_some",
    "prune_removed", "prune_kept", "reappeared_after_expiry", "two_aircraft_positions",
];

fn new_witnesses() -> Arc<BTreeMap<&'static str, AtomicU64>> {
    Arc::new(WITNESS_NAMES.iter().map(|n| (*n, AtomicU64::new(0))).collect())
}

struct Info {
    /// Some(address) for DF17 / DF18 frames
    key: Option<u32>,
    df18: bool,
    callsign: Option<String>,
    velocity: Option<Option<(f32, f64, i16)>>,
    position: Option<Altitude>,
}

fn info_of(frame: &Frame) -> Info {
    let (key, me, df18) = match &frame.df {
        DF::ADSB(a) => (Some(icao_u32(&a.icao)), Some(&a.me), false),
        DF::TisB { cf, .. } => (Some(icao_u32(&cf.aa)), Some(&cf.me), true),
        _ => (None, None, false),
    };
    let mut i = Info { key, df18, callsign: None, velocity: None, position: None };
    match me {
        Some(ME::AircraftIdentification(id)) => i.callsign = Some(id.cn.clone()),
        Some(ME::AirborneVelocity(v)) => i.velocity = Some(v.calculate()),
        Some(ME::AirbornePositionBaroAltitude(a)) | Some(ME::AirbornePositionGNSSAltitude(a)) => i.position = Some(*a),
        _ => {}
    }
    i
}

fn bits(p: (f64, f64)) -> (u64, u64) {
    (p.0.to_bits(), p.1.to_bits())
}
fn unbits(p: (u64, u64)) -> (f64, f64) {
    (f64::from_bits(p.0), f64::from_bits(p.1))
}

const THRESH_GUARD_KM: f64 = 0.05;

#[derive(Clone, Copy, Debug, PartialEq)]
enum Verdict {
    Publish,
    ClearRange,
    ClearJump,
    /// within 50 m of a threshold: either outcome is accepted
    Either,
}

impl Tracker {
    fn wit(&self, n: &'static str) {
        self.witnesses[n].fetch_add(1, Ordering::Relaxed);
    }

    /// One frame event on real + model; returns None when a threshold comparison is too close to
    /// call (the transition is then not taken and counted as ambiguous).
    fn step_frame(&self, s: &mut St, bytes: &[u8]) -> Option<()> {
        let now_abs = vclock::EPOCH_NS + s.now;
        vclock::set_now(s.now);
        let frame = Frame::from_bytes(bytes).expect("alphabet frame must decode");
        let info = info_of(&frame);
        let before_each = canon_each(&s.real, 1, now_abs);
        let before_all = canon_real(&s.real, 1, now_abs);
        let len_before = s.real.len();
        let mut real = s.real.clone();
        let (rx, range) = (s.rx, self.range);
        let res = guarded(move || {
            let a = real.action(frame, rx, range);
            (real, a)
        });
        let (real, added) = match res {
            Ok(x) => x,
            Err(p) => {
                // a panic is C01's to report; here it is attributed only to the property that judges this kind of event
                let prop = if info.position.is_some() {
                    13u8
                } else if info.callsign.is_some() || info.velocity.is_some() {
                    14
                } else {
                    12
                };
                s.viol.push((prop, "no-panic".into(), "action completes".into(), format!("panic: {p} @ {}", last_panic_loc())));
                return Some(());
            }
        };
        s.real = real;
        let added = added == Added::Yes;
        s.last_added = added;

        // ---------------- model step
        let mut both_slots = false;
        let mut cands: Vec<((f64, f64), Verdict)> = vec![];
        let mut model_added = false;
        if let Some(k) = info.key {
            model_added = !s.model.recs.contains_key(&k);
            let rec = s.model.recs.entry(k).or_default();
            if let Some(cs) = &info.callsign {
                if rec.callsign.is_some() && rec.callsign.as_ref() != Some(cs) {
                    self.wit("callsign_change");
                }
                rec.callsign = Some(cs.clone());
            }
            if let Some(v) = &info.velocity {
                match v {
                    Some((h, gs, vr)) => {
                        rec.heading = Some(h.to_bits());
                        rec.speed = Some((*gs as f32).to_bits());
                        rec.vrate = Some(*vr);
                        self.wit("velocity_update");
                    }
                    None => self.wit("velocity_no_information"),
                }
            }
            if let Some(a) = info.position {
                match a.odd_flag {
                    CPRFormat::Even => rec.even = Some(a),
                    CPRFormat::Odd => rec.odd = Some(a),
                }
                if let (Some(e), Some(o)) = (rec.even, rec.odd) {
                    both_slots = true;
                    // C13 says "the CPR pairing": besides the tracker rules (judged on the real get_position's candidates
                    // below) the pairing itself is compared with the independent reference decoder - presence in both
                    // orders and the coordinates - so that a pairing defect that needs a tracker history is reported here
                    for (first, second) in [(&e, &o), (&o, &e)] {
                        let rep = |a: &adsb_deku::Altitude| crate::cprref::Rep { odd: a.odd_flag == CPRFormat::Odd, yz: a.lat_cpr, xz: a.lon_cpr };
                        let (r0, r1) = crate::cprref::rlats(e.lat_cpr, o.lat_cpr);
                        if (r0.abs() - 87.0).abs() < 1e-6 || (r1.abs() - 87.0).abs() < 1e-6 {
                            continue; // NL at exactly 87 deg has two accepted readings (see C05)
                        }
                        let want = crate::cprref::decode(rep(first), rep(second));
                        let got = get_position((first, second));
                        let ok = match (want, got) {
                            (crate::cprref::Decode::Pos { lat, lon }, Some(g)) => (g.latitude - lat).abs() < 1e-6 && ((g.longitude - lon).abs() < 1e-6 || ((g.longitude - lon).abs() - 360.0).abs() < 1e-6),
                            (crate::cprref::Decode::Pos { .. }, None) => false,
                            (_, Some(_)) => false,
                            (_, None) => true,
                        };
                        if !ok {
                            s.viol.push((13, "cpr-pairing".into(), format!("{want:?} for second={:?} yz=({},{}) xz=({},{})", second.odd_flag, e.lat_cpr, o.lat_cpr, e.lon_cpr, o.lon_cpr), format!("{:?}", got.map(|g| (g.latitude, g.longitude)))));
                        }
                    }
                    // either pairing order is an acceptable reading of the statement: one verdict per order
                    for c in [get_position((&e, &o)), get_position((&o, &e))].into_iter().flatten() {
                        let c = (c.latitude, c.longitude);
                        if cands.iter().any(|(x, _)| *x == c) {
                            continue;
                        }
                        let prev = rec.position.map(unbits);
                        let d = haversine_km(s.rx, c);
                        let dj = prev.map(|p| haversine_km(p, c));
                        let close = (d - self.range).abs() < THRESH_GUARD_KM || dj.map_or(false, |x| (x - 100.0).abs() < THRESH_GUARD_KM);
                        let verdict = if close {
                            self.ambiguous.fetch_add(1, Ordering::Relaxed);
                            Verdict::Either
                        } else if d > self.range {
                            Verdict::ClearRange
                        } else if dj.map_or(false, |x| x > 100.0) {
                            Verdict::ClearJump
                        } else {
                            Verdict::Publish
                        };
                        cands.push((c, verdict));
                    }
                }
            }
            rec.count += 1;
            rec.last_heard = s.now;
        }

        // ---------------- oracles
        let p = self.prop;
        let real_keys: Vec<u32> = s.real.keys().map(icao_u32).collect();
        let model_keys: Vec<u32> = s.model.recs.keys().copied().collect();
        if added {
            self.wit("added");
        } else {
            self.wit("not_added");
        }
        if info.df18 {
            self.wit("df18");
        }
        // C12: accounting
        if real_keys != model_keys {
            s.viol.push((12, "key-set".into(), format!("{model_keys:06x?}"), format!("{real_keys:06x?}")));
        }
        if added != model_added {
            s.viol.push((12, "added".into(), format!("added={model_added}"), format!("added={added}")));
        }
        for (k, st) in s.real.iter() {
            if let Some(m) = s.model.recs.get(&icao_u32(k)) {
                if u64::from(st.num_messages) != u64::from(m.count) {
                    s.viol.push((12, "message-count".into(), format!("{k}: {}", m.count), format!("{k}: {}", st.num_messages)));
                }
            }
        }
        if s.real.len() < len_before {
            s.viol.push((12, "len-decreased".into(), format!(">= {len_before}"), format!("{}", s.real.len())));
        }
        if info.key.is_none() {
            self.wit("non_es_ignored");
            let after_all = canon_real(&s.real, 1, now_abs);
            if after_all != before_all {
                s.viol.push((12, "non-es-changed-state".into(), "state unchanged".into(), "state changed".into()));
            }
        }
        // isolation: every other record bit-identical (incl. raw timestamps)
        let after_each = canon_each(&s.real, 1, now_abs);
        for (k, b) in &before_each {
            if Some(*k) != info.key && after_each.get(k) != Some(b) {
                s.viol.push((12, "isolation".into(), format!("record {k:06x} untouched"), "changed or removed".into()));
            }
        }

        // C13 / C14 on the addressed record
        if let Some(k) = info.key {
            let key_icao = ICAO([(k >> 16) as u8, (k >> 8) as u8, k as u8]);
            if let (Some(st), Some(m)) = (s.real.get(key_icao), s.model.recs.get_mut(&k)) {
                let c = &st.coords;
                if info.position.is_some() {
                    let real_pos = c.position.map(|p| (p.latitude, p.longitude));
                    let real_cleared = c.altitudes[0].is_none() && c.altitudes[1].is_none() && c.position.is_none() && c.kilo_distance.is_none();
                    let clear_model = |m: &mut MRec| {
                        if let Some(cur) = m.position {
                            m.published.push((cur, false));
                        }
                        m.even = None;
                        m.odd = None;
                        m.position = None;
                        m.dist = None;
                    };
                    if !both_slots {
                        // only one parity so far: report stored, nothing published or cleared
                        let slots: Vec<Altitude> = c.altitudes.iter().flatten().copied().collect();
                        let want: Vec<Altitude> = [m.even, m.odd].into_iter().flatten().collect();
                        if slots != want {
                            s.viol.push((13, "stored-reports".into(), format!("{want:?}"), format!("{slots:?}")));
                        }
                        if real_pos.is_some() {
                            s.viol.push((13, "published-without-pair".into(), "None".into(), format!("{real_pos:?}")));
                        }
                    } else if real_cleared {
                        let allowed = cands.is_empty() || cands.iter().any(|(_, v)| matches!(v, Verdict::ClearRange | Verdict::ClearJump | Verdict::Either));
                        if cands.is_empty() {
                            self.wit("undecodable_pair_clear");
                        } else if cands.iter().any(|(_, v)| *v == Verdict::ClearRange) {
                            self.wit("range_reject");
                        } else if cands.iter().any(|(_, v)| *v == Verdict::ClearJump) {
                            self.wit("jump_reject");
                        }
                        if !allowed {
                            s.viol.push((13, "cleared-plausible-position".into(), format!("publish one of {:?}", cands.iter().map(|c| c.0).collect::<Vec<_>>()), "record cleared".into()));
                        }
                        clear_model(m);
                    } else {
                        // not cleared: the latest even / odd reports are stored and one plausible candidate is published
                        let slots: Vec<Altitude> = c.altitudes.iter().flatten().copied().collect();
                        let want: Vec<Altitude> = [m.even, m.odd].into_iter().flatten().collect();
                        let same = slots.len() == want.len() && want.iter().all(|w| slots.contains(w));
                        if !same {
                            s.viol.push((13, "stored-reports".into(), format!("{want:?}"), format!("{slots:?}")));
                        }
                        let hit = real_pos.and_then(|rp| cands.iter().find(|(c, _)| bits(*c) == bits(rp)).map(|(c, v)| (*c, *v)));
                        match hit {
                            Some((rp, v)) if matches!(v, Verdict::Publish | Verdict::Either) => {
                                self.wit("publish");
                                if m.position.is_none() && !m.published.is_empty() {
                                    self.wit("republish_after_clear");
                                }
                                let d_ref = haversine_km(s.rx, rp);
                                match c.kilo_distance {
                                    Some(d) if (d - d_ref).abs() <= 1e-6 * d_ref + 0.001 => {}
                                    other => s.viol.push((13, "distance".into(), format!("{d_ref} km (great circle, R = 6371 km)"), format!("{other:?}"))),
                                }
                                if let Some(cur) = m.position {
                                    m.published.push((cur, cur != bits(rp)));
                                }
                                m.position = Some(bits(rp));
                                m.dist = Some(d_ref);
                            }
                            Some((rp, v)) => {
                                s.viol.push((13, "published-implausible-position".into(), format!("record cleared ({v:?}: range {} km, jump limit 100 km)", self.range), format!("published {rp:?}")));
                                clear_model(m);
                            }
                            None => {
                                s.viol.push((13, "published-position".into(), format!("cleared, or one of {:?}", cands), format!("{real_pos:?} with both reports stored")));
                                clear_model(m);
                            }
                        }
                    }
                }
                // the model's view of position presence must match in every state
                if c.position.is_some() != m.position.is_some() {
                    s.viol.push((13, "position-presence".into(), format!("{:?}", m.position.map(unbits)), format!("{:?}", c.position)));
                }

                // C14 attributes
                if st.callsign != m.callsign {
                    s.viol.push((14, "callsign".into(), format!("{:?}", m.callsign), format!("{:?}", st.callsign)));
                }
                let (h, sp, vr) = (st.heading.map(f32::to_bits), st.speed.map(f32::to_bits), st.vert_speed);
                if h != m.heading || sp != m.speed || vr != m.vrate {
                    s.viol.push((
                        14,
                        "velocity-attributes".into(),
                        format!("{:?} {:?} {:?}", m.heading.map(f32::from_bits), m.speed.map(f32::from_bits), m.vrate),
                        format!("{:?} {:?} {:?}", st.heading, st.speed, st.vert_speed),
                    ));
                }
                // track: its positioned entries are, in order, the superseded publication events; the current
                // position is never part of it; events lost through a clear or re-published unchanged are optional
                let seq: Vec<(u64, u64)> = st
                    .track
                    .as_ref()
                    .map(|t| t.iter().filter_map(|c| c.position.map(|p| bits((p.latitude, p.longitude)))).collect())
                    .unwrap_or_default();
                if !seq.is_empty() {
                    self.wit("track_push");
                }
                fn matches(pubs: &[((u64, u64), bool)], seq: &[(u64, u64)]) -> bool {
                    match (pubs.first(), seq.first()) {
                        (None, None) => true,
                        (None, Some(_)) => false,
                        (Some((p, req)), _) => {
                            (seq.first() == Some(p) && matches(&pubs[1..], &seq[1..])) || (!*req && matches(&pubs[1..], seq))
                        }
                    }
                }
                if !matches(&m.published, &seq) {
                    s.viol.push((
                        14,
                        "track".into(),
                        format!("superseded publications {:?} (true = required)", m.published.iter().map(|(p, r)| (unbits(*p), *r)).collect::<Vec<_>>()),
                        format!("{:?}", seq.iter().map(|p| unbits(*p)).collect::<Vec<_>>()),
                    ));
                }
            }
        }
        self.views(s);
        let _ = p;
        Some(())
    }

    /// C14: derived views agree with the records, in every state.
    fn views(&self, s: &mut St) {
        let mut with_pos = vec![];
        let mut positions = 0;
        for (k, st) in s.real.iter() {
            let c = &st.coords;
            if c.position.is_some() {
                with_pos.push(*k);
                positions += 1;
            }
            if c.position.is_some() != c.kilo_distance.is_some() {
                s.viol.push((14, "distance-iff-position".into(), "both or neither".into(), format!("{k}: position={:?} distance={:?}", c.position, c.kilo_distance)));
            }
            let d = s.real.aircraft_details(*k);
            let alts: Vec<u16> = c.altitudes.iter().flatten().filter_map(|a| a.alt).collect();
            let all_alts = c.altitudes.iter().all(|a| a.map_or(false, |a| a.alt.is_some()));
            match &d {
                Some(d) => {
                    self.wit("details_some");
                    if c.position.is_none() || c.kilo_distance.is_none() || alts.is_empty() {
                        s.viol.push((14, "details-without-data".into(), "None".into(), format!("{k}: {d:?}")));
                    } else {
                        // the altitude of one of the currently paired reports = the latest even / odd report (model)
                        let model_alts: Vec<u16> = s
                            .model
                            .recs
                            .get(&icao_u32(k))
                            .map(|m| [m.even, m.odd].into_iter().flatten().filter_map(|a| a.alt).collect())
                            .unwrap_or_default();
                        if !alts.contains(&d.altitude) || (!model_alts.is_empty() && !model_alts.contains(&d.altitude)) {
                            s.viol.push((14, "details-altitude".into(), format!("one of {model_alts:?} (latest even / odd report)"), format!("{}", d.altitude)));
                        }
                        let p = c.position.unwrap();
                        if d.position != p || Some(d.kilo_distance) != c.kilo_distance || d.heading != st.heading {
                            s.viol.push((14, "details-values".into(), format!("{p:?} {:?} {:?}", c.kilo_distance, st.heading), format!("{d:?}")));
                        }
                    }
                }
                None => {
                    if c.position.is_some() && c.kilo_distance.is_some() && all_alts {
                        s.viol.push((14, "details-missing".into(), format!("Some for {k}"), "None".into()));
                    }
                }
            }
        }
        if positions >= 2 {
            self.wit("two_aircraft_positions");
        }
        let ap: Vec<ICAO> = s.real.all_position().iter().map(|(k, _)| *k).collect();
        if ap != with_pos {
            s.viol.push((14, "all-position".into(), format!("{with_pos:?}"), format!("{ap:?}")));
        }
        for (k, p) in s.real.all_position() {
            if s.real.get(k).and_then(|st| st.coords.position) != Some(p) {
                s.viol.push((14, "all-position-value".into(), "the record's position".into(), format!("{k}: {p:?}")));
            }
        }
        let text = s.real.to_string();
        let n_details = s.real.keys().filter(|k| s.real.aircraft_details(**k).is_some()).count();
        if text.lines().count() != n_details {
            s.viol.push((14, "display-lines".into(), format!("{n_details} lines"), format!("{} lines", text.lines().count())));
        }
    }

    fn step_prune(&self, s: &mut St, t: u64) {
        let now_abs = vclock::EPOCH_NS + s.now;
        vclock::set_now(s.now);
        let before_each = canon_each(&s.real, 1, now_abs);
        let mut real = s.real.clone();
        match guarded(move || {
            real.prune(t);
            real
        }) {
            Ok(r) => s.real = r,
            Err(p) => {
                s.viol.push((15, "no-panic".into(), "prune completes".into(), format!("panic: {p}")));
                return;
            }
        }
        let now = s.now;
        let before_n = s.model.recs.len();
        s.model.recs.retain(|_, r| u128::from(now - r.last_heard) < u128::from(t) * 1_000_000_000);
        if s.model.recs.len() < before_n {
            self.wit("prune_removed");
        }
        if !s.model.recs.is_empty() {
            self.wit("prune_kept");
        }
        let real_keys: Vec<u32> = s.real.keys().map(icao_u32).collect();
        let model_keys: Vec<u32> = s.model.recs.keys().copied().collect();
        if real_keys != model_keys {
            s.viol.push((15, "expiry-set".into(), format!("kept {model_keys:06x?} at T={t}s"), format!("kept {real_keys:06x?}")));
        }
        // C12's half of the same fact: the tracked set shrinks only through expiry - an address heard less than T ago
        // must still be tracked (an address kept too long is C15's business alone)
        let lost: Vec<u32> = model_keys.iter().copied().filter(|k| !real_keys.contains(k)).collect();
        if !lost.is_empty() {
            s.viol.push((12, "shrinks-only-through-expiry".into(), format!("{lost:06x?} still tracked (heard less than {t}s ago)"), format!("kept {real_keys:06x?}")));
        }
        let after_each = canon_each(&s.real, 1, now_abs);
        for (k, a) in &after_each {
            if before_each.get(k) != Some(a) {
                s.viol.push((15, "prune-touched-record".into(), format!("{k:06x} untouched"), "changed".into()));
            }
        }
    }
}

impl Model for Tracker {
    type State = St;
    type Action = usize;

    fn init_states(&self) -> Vec<St> {
        let mut s = St { real: Airplanes::new(), model: MState::default(), now: 0, depth: 0, viol: vec![], hist: vec![], last_added: false, rx: self.rx, path_key: self.path_key, key: Arc::new(vec![]) };
        s.rekey();
        vec![s]
    }

    fn actions(&self, state: &St, actions: &mut Vec<usize>) {
        // a violating state is terminal: its successors would only repeat the report
        if state.viol.iter().any(|v| v.0 == self.prop) {
            return;
        }
        actions.extend(0..self.alphabet.len());
    }

    fn next_state(&self, last: &St, action: usize) -> Option<St> {
        self.transitions.fetch_add(1, Ordering::Relaxed);
        let mut s = last.clone();
        s.depth += 1;
        s.hist.push(action as u16);
        self.max_depth.fetch_max(u64::from(s.depth), Ordering::Relaxed);
        s.viol.clear();
        match &self.alphabet[action] {
            Ev::Frame { bytes, .. } => {
                s.now += self.frame_step_ns;
                let had: Vec<u32> = s.model.recs.keys().copied().collect();
                self.step_frame(&mut s, bytes)?;
                // expiry model: a re-appearing aircraft starts from an empty record
                if self.prop == 15 {
                    for (k, st) in s.real.iter() {
                        let ku = icao_u32(k);
                        if !had.contains(&ku) {
                            if last.depth > 0 && last.model.recs.is_empty() {
                                self.wit("reappeared_after_expiry");
                            }
                            if !s.last_added {
                                s.viol.push((15, "reported-as-new".into(), "Added::Yes for an address that was not tracked".into(), "Added::No".into()));
                            }
                            if u64::from(st.num_messages) != 1 {
                                s.viol.push((15, "fresh-record".into(), "count 1 after (re)appearance".into(), format!("{}", st.num_messages)));
                            }
                        }
                    }
                }
            }
            Ev::Wait(ns) => s.now += ns,
            Ev::Rx(la, lo) => s.rx = (*la, *lo),
            Ev::Prune(t) => self.step_prune(&mut s, *t),
        }
        vclock::clear();
        s.viol.retain(|v| v.0 == self.prop);
        if !s.viol.is_empty() {
            // recorded here: stateright does not evaluate properties on the deepest level it generates
            let mut f = self.found.lock().unwrap();
            if f.len() < 2000 {
                for v in &s.viol {
                    f.push((s.hist.clone(), v.1.clone(), v.2.clone(), v.3.clone()));
                }
            }
        }
        s.rekey();
        Some(s)
    }

    fn properties(&self) -> Vec<Property<Self>> {
        // never violated: the oracles are evaluated (and recorded) in next_state on every generated state,
        // including the deepest level; this property only keeps the search running to completion
        vec![Property::<Self>::always("explore", |_: &Tracker, _: &St| true)]
    }
}

// ------------------------------------------------------------------ driver
pub struct Outcome {
    pub states: u64,
    pub transitions: u64,
    pub depth: usize,
    pub ambiguous: u64,
}

fn explore(run: &Run, label: &str, m: Tracker, depth: usize) -> Outcome {
    let prop = m.prop;
    let (rx, range, step) = (m.rx, m.range, m.frame_step_ns);
    let transitions = m.transitions.clone();
    let witnesses = m.witnesses.clone();
    let ambiguous = m.ambiguous.clone();
    let max_depth = m.max_depth.clone();
    let found = m.found.clone();
    let names: Vec<String> = m.alphabet.iter().map(Ev::name).collect();
    // every alphabet frame must decode (alphabet self-check)
    for e in &m.alphabet {
        if let Ev::Frame { name, bytes } = e {
            assert!(Frame::from_bytes(bytes).is_ok(), "alphabet letter {name} does not decode");
        }
    }
    // DFS keeps only fingerprints of visited states plus one path per thread (BFS kept a frontier of full
    // states: 39 GB at depth 6). Depth is part of the state key, so a state reached again by a shorter path is
    // a different state and the bounded search stays exhaustive. VERIF_E2_BFS=1 selects BFS (cross-check).
    let builder = m.checker().threads(16).target_max_depth(depth + 1);
    let use_bfs = std::env::var("VERIF_E2_BFS").is_ok() || label.contains("/bfs");
    let (states, _sr_depth) = if use_bfs {
        let c = builder.spawn_bfs().join();
        (c.unique_state_count() as u64, c.max_depth())
    } else {
        let c = builder.spawn_dfs().join();
        (c.unique_state_count() as u64, c.max_depth())
    };
    let maxd = max_depth.load(Ordering::Relaxed) as usize;
    let mut found = found.lock().unwrap().clone();
    found.sort_by(|a, b| (a.0.len(), &a.0, &a.1).cmp(&(b.0.len(), &b.0, &b.1)));
    for (hist, oracle, expected, observed) in found {
        let script: Vec<String> = hist.iter().map(|a| names[*a as usize].clone()).collect();
        run.violation(Violation {
            oracle: oracle.clone(),
            class: format!("{label}:{oracle}"),
            input: format!("prop={prop} rx={},{} range={range} step={step} | {}", rx.0, rx.1, script.join(" ; ")),
            expected,
            observed,
        });
    }
    let t = transitions.load(Ordering::Relaxed);
    run.add("states", states);
    run.add("transitions", t);
    for (n, c) in witnesses.iter() {
        run.add(&format!("witness_{n}"), c.load(Ordering::Relaxed));
    }
    run.add("ambiguous_threshold_transitions_not_taken", ambiguous.load(Ordering::Relaxed));
    run.sample(json!({"model": label, "alphabet_size": names.len(), "depth": depth, "letters": names.iter().take(6).collect::<Vec<_>>()}));
    Outcome { states, transitions: t, depth: maxd, ambiguous: ambiguous.load(Ordering::Relaxed) }
}

/// Lasso-shaped histories: every periodic word of period <= `period` over the alphabet, repeated up to `length`
/// events, executed on real + model with all oracles (adds depth far beyond the BFS/DFS bound along structured paths:
/// accumulation, wrap-around and capacity defects need hundreds of repetitions, not breadth).
fn lasso(run: &Run, label: &str, m: Tracker, period: usize, length: usize) -> Outcome {
    use rayon::prelude::*;
    let n = m.alphabet.len();
    let mut words: Vec<Vec<usize>> = vec![];
    for p in 1..=period {
        let mut idx = vec![0usize; p];
        loop {
            // skip words that are repetitions of a shorter word
            let primitive = (1..p).all(|d| p % d != 0 || !(0..p).all(|i| idx[i] == idx[i % d]));
            if primitive {
                words.push(idx.clone());
            }
            let mut k = p;
            while k > 0 {
                k -= 1;
                idx[k] += 1;
                if idx[k] < n {
                    break;
                }
                idx[k] = 0;
                if k == 0 {
                    k = usize::MAX;
                    break;
                }
            }
            if k == usize::MAX {
                break;
            }
        }
    }
    let names: Vec<String> = m.alphabet.iter().map(Ev::name).collect();
    let (prop, rx, range, step) = (m.prop, m.rx, m.range, m.frame_step_ns);
    let steps = AtomicU64::new(0);
    let init = m.init_states().remove(0);
    let bad: Vec<(Vec<usize>, usize, Vec<(u8, String, String, String)>)> = words
        .par_iter()
        .filter_map(|w| {
            let mut s = init.clone();
            for i in 0..length {
                steps.fetch_add(1, Ordering::Relaxed);
                match m.next_state(&s, w[i % w.len()]) {
                    Some(nx) => s = nx,
                    None => return None,
                }
                s.hist.clear(); // the history is (word, count), not a list
                if !s.viol.is_empty() {
                    return Some((w.clone(), i + 1, s.viol.clone()));
                }
            }
            None
        })
        .collect();
    m.found.lock().unwrap().clear();
    for (w, count, viol) in bad.into_iter().take(50) {
        let word: Vec<String> = w.iter().map(|a| names[*a].clone()).collect();
        // replayable: the script is the word repeated
        let script: Vec<String> = (0..count).map(|i| word[i % word.len()].clone()).collect();
        for v in viol.into_iter().filter(|v| v.0 == prop) {
            run.violation(Violation {
                oracle: v.1.clone(),
                class: format!("{label}:{}", v.1),
                input: format!("prop={prop} rx={},{} range={range} step={step} | {}", rx.0, rx.1, script.join(" ; ")),
                expected: v.2,
                observed: format!("{} (after {count} events of the periodic word [{}])", v.3, word.join(" ; ")),
            });
        }
    }
    let t = steps.load(Ordering::Relaxed);
    run.add("lasso_words", words.len() as u64);
    run.add("lasso_transitions", t);
    run.add("transitions", t);
    run.sample(json!({"model": label, "lasso": true, "period_max": period, "length": length, "words": words.len()}));
    Outcome { states: t, transitions: t, depth: length, ambiguous: 0 }
}

fn tracker(alphabet: Vec<Ev>, rx: (f64, f64), range: f64, step: u64, prop: u8) -> Tracker {
    Tracker {
        alphabet,
        rx,
        range,
        frame_step_ns: step,
        prop,
        path_key: false,
        transitions: Arc::new(AtomicU64::new(0)),
        witnesses: new_witnesses(),
        ambiguous: Arc::new(AtomicU64::new(0)),
        max_depth: Arc::new(AtomicU64::new(0)),
        found: Arc::new(std::sync::Mutex::new(vec![])),
    }
}

/// The same model explored path by path: states reached by different histories are never merged, so state that the
/// public API (and therefore the state key) cannot show - a private memo, a cache - cannot hide behind a merge.
fn tracker_paths(alphabet: Vec<Ev>, rx: (f64, f64), range: f64, step: u64, prop: u8) -> Tracker {
    Tracker { path_key: true, ..tracker(alphabet, rx, range, step, prop) }
}

fn finish(run: Run, outs: &[(String, Outcome)], extra_assumptions: Vec<String>) -> i32 {
    let states: u64 = outs.iter().map(|o| o.1.states).sum();
    let transitions: u64 = outs.iter().map(|o| o.1.transitions).sum();
    let per: Vec<_> = outs.iter().map(|(l, o)| json!({"model": l, "states": o.states, "transitions": o.transitions, "max_depth": o.depth, "ambiguous_not_taken": o.ambiguous})).collect();
    let cov = json!({
        "states": states.max(1),
        "transitions": transitions.max(1),
        "traces_validated_against_impl": transitions,
        "evaluations": transitions,
        "distinct_nontrivial": states,
        "rule": "stateright BFS; a state = canonical projection of the real Airplanes value (ages instead of timestamps) + reference tracker + depth; a transition = one event executed on the real action()/prune() under the virtual clock and on the reference; every transition is an execution of the implementation",
        "exhaustive": true,
        "per_model": per,
        "clock_selftest": vclock::self_test(),
    });
    let mut a = vec![
        "depth-bounded: all histories up to the stated depth over the stated alphabet; no fixpoint claim (message counters grow without bound)".to_string(),
        "the reference consumes the projection of the frame the real decoder returned (decoupled from C04-C10) and the real get_position for the candidate positions of the tracker rules (decoupled from C05); for C13 the pairing itself is additionally compared with the independent reference decoder (oracle cpr-pairing); distances and thresholds use an exact haversine (R = 6371 km)".to_string(),
        "transitions whose range / jump comparison lies within 50 m of its threshold are not taken (counted)".to_string(),
    ];
    a.extend(extra_assumptions);
    run.finish("model_checking", cov, a)
}

pub fn c12(tier: Tier) -> i32 {
    let run = Run::new("C12", tier);
    assert!(vclock::self_test());
    let mut outs = vec![];
    let depth = if tier.thorough() { 5 } else { 4 };
    for (label, rx, range) in [("rx35N80W", (35.0, -80.0), 500.0), ("rx89N10E.range50", (89.0, 10.0), 50.0)] {
        let o = explore(&run, &format!("C12/{label}/d{depth}"), tracker(alphabet_c12(), rx, range, 1_000_000_000, 12), depth);
        outs.push((label.to_string(), o));
        if !tier.thorough() {
            break;
        }
    }
    // the receiver exactly at 0 N 0 E (a legal position, not "unconfigured")
    {
        let d0 = if tier.thorough() { 4 } else { 3 };
        let o = explore(&run, &format!("C12/rx0N0E/d{d0}"), tracker(alphabet_c12(), (0.0, 0.0), 500.0, 1_000_000_000, 12), d0);
        outs.push(("rx0N0E".into(), o));
    }
    // more than a thousand aircraft at once: one identification frame from each of 1300 addresses, then a second round
    {
        let n_addr = 1300u32;
        let alpha: Vec<Ev> = (0..n_addr).map(|i| Ev::Frame { name: format!("b{i}.ident"), bytes: crate::enc::es_frame(17, 5, 0x700000 + i * 7, crate::enc::me_ident(4, 0, "MANY")) }).collect();
        let m = tracker(alpha, (35.0, -80.0), 500.0, 1_000_000, 12);
        let mut s = m.init_states().remove(0);
        let mut steps = 0u64;
        'outer: for round in 0..2 {
            for i in 0..n_addr as usize {
                steps += 1;
                match m.next_state(&s, i) {
                    Some(nx) => s = nx,
                    None => break 'outer,
                }
                s.hist.clear();
                if let Some(v) = s.viol.iter().find(|v| v.0 == 12) {
                    run.violation(Violation {
                        oracle: v.1.clone(),
                        class: format!("C12/many-addresses:{}", v.1),
                        input: format!("prop=12 one identification frame from each of the addresses 700000 + 7*k, k = 0..{} (round {round}, failing at k = {i})", n_addr - 1),
                        expected: v.2.clone(),
                        observed: v.3.clone(),
                    });
                    break 'outer;
                }
            }
        }
        m.found.lock().unwrap().clear();
        run.add("many_addresses_transitions", steps);
        outs.push(("many-addresses".into(), Outcome { states: steps, transitions: steps, depth: steps as usize, ambiguous: 0 }));
    }
    // every type code, and the all-zero address (a legal address, not a sentinel)
    {
        let dt = if tier.thorough() { 4 } else { 3 };
        let o = explore(&run, &format!("C12/type-codes/d{dt}"), tracker(alphabet_c12_typecodes(), (35.0, -80.0), 500.0, 1_000_000_000, 12), dt);
        outs.push(("type-codes".into(), o));
    }
    // the tracked set shrinks only through expiry: accounting letters interleaved with prune, one second per event
    {
        let de = if tier.thorough() { 7 } else { 5 };
        let o = explore(&run, &format!("C12/expiry/d{de}"), tracker(alphabet_c12_expiry(), (35.0, -80.0), 500.0, 1_000_000_000, 12), de);
        outs.push(("expiry".into(), o));
        // the same alphabet path by path (no merging): hidden per-tracker state, e.g. a lookup memo that survives prune
        let dp = if tier.thorough() { 6 } else { 5 };
        let o = explore(&run, &format!("C12/expiry-paths/d{dp}"), tracker_paths(alphabet_c12_expiry(), (35.0, -80.0), 500.0, 1_000_000_000, 12), dp);
        outs.push(("expiry-paths".into(), o));
    }
    let ll = if tier.thorough() { 3000 } else { 1200 };
    let o = lasso(&run, &format!("C12/lasso/p2x{ll}"), tracker(alphabet_c12(), (35.0, -80.0), 500.0, 1_000_000_000, 12), 2, ll);
    outs.push(("lasso".into(), o));
    // determinism self-check: same model twice -> same state count
    let again = explore(&run, "C12/repeat/bfs", tracker(alphabet_c12(), (35.0, -80.0), 500.0, 1_000_000_000, 12), depth.min(3));
    let first = explore(&run, "C12/repeat2", tracker(alphabet_c12(), (35.0, -80.0), 500.0, 1_000_000_000, 12), depth.min(3));
    if again.states != first.states {
        println!("MACHINERY: nondeterministic state count {} vs {}", again.states, first.states);
        return 2;
    }
    finish(run, &outs, vec![])
}

pub fn c13(tier: Tier) -> i32 {
    let run = Run::new("C13", tier);
    assert!(vclock::self_test());
    let mut outs = vec![];
    let depth = if tier.thorough() { 6 } else { 4 };
    let f1_start = (35.0, -80.0);
    let antipode = (-35.0, 100.0);
    let mut configs: Vec<(&str, (f64, f64), f64)> = vec![("rx35N80W.r500", (35.0, -80.0), 500.0), ("rx35N80W.r2000", (35.0, -80.0), 2000.0)];
    if tier.thorough() {
        configs.push(("rx89N10E.r500", (89.0, 10.0), 500.0));
        configs.push(("rx0N179.9E.r500", (0.0, 179.9), 500.0));
        configs.push(("rx35N80W.r50", f1_start, 50.0));
        configs.push(("rx60S100E.r500", (-60.0, 100.0), 500.0));
    }
    for (label, rx, range) in configs {
        let o = explore(&run, &format!("C13/{label}/d{depth}"), tracker(alphabet_c13(rx, range, tier), rx, range, 1_000_000_000, 13), depth);
        outs.push((label.to_string(), o));
    }
    // the same model with 100 s of virtual time between frames: the plausibility rules do not depend on time
    {
        let rxs = (35.0, -80.0);
        let ds = if tier.thorough() { 5 } else { 4 };
        let o = explore(&run, &format!("C13/slow-traffic/d{ds}"), tracker(alphabet_c13(rxs, 2000.0, Tier::Quick), rxs, 2000.0, 100_000_000_000, 13), ds);
        outs.push(("slow-traffic".into(), o));
    }
    // polar receiver: jump rule boundary through consistent reports (NL = 1)
    {
        let rxp = (89.0, 10.0);
        let alpha: Vec<Ev> = alphabet_c13(rxp, 500.0, Tier::Quick)
            .into_iter()
            .filter(|e| matches!(e, Ev::Frame { name, .. } if name.starts_with("a1.f0.") || name.starts_with("a1.pjump")))
            .collect();
        let dp = if tier.thorough() { 6 } else { 4 };
        let o = explore(&run, &format!("C13/polar-jump/d{dp}"), tracker(alpha, rxp, 500.0, 1_000_000_000, 13), dp);
        outs.push(("polar-jump".into(), o));
    }
    // the carrier of a position report (DF17 / DF18, barometric / GNSS height) does not matter to the tracker rules
    {
        let rxc = (35.0, -80.0);
        let dc = if tier.thorough() { 6 } else { 5 };
        let o = explore(&run, &format!("C13/carriers/d{dc}"), tracker(alphabet_c13_carriers(rxc), rxc, 500.0, 1_000_000_000, 13), dc);
        outs.push(("carriers".into(), o));
    }
    // one pair 20 m on either side of every NL transition latitude, both hemispheres: the pairing (longitude zone count)
    {
        let mut n_pairs = 0u64;
        for nl in 2..=59u32 {
            let t = crate::cprref::nl_transition(nl);
            for sign in [1.0f64, -1.0] {
                for off_m in [-20.0f64, 20.0] {
                    let lat = sign * (t + off_m / 111_320.0);
                    if lat.abs() >= 89.9 {
                        continue;
                    }
                    let lon = 10.2;
                    let mut alpha = vec![];
                    for odd in [false, true] {
                        alpha.push(Ev::Frame { name: format!("a1.nl{nl}{}{off_m}.{}", if sign > 0.0 { "N" } else { "S" }, if odd { "odd" } else { "even" }),
                            bytes: crate::enc::es_frame(17, 5, A1, crate::enc::me_pos_latlon(11, 9000, odd, lat, lon)) });
                    }
                    let o = explore(&run, &format!("C13/nl-strip{nl}/d2"), tracker(alpha, (lat, 10.0), 500.0, 1_000_000_000, 13), 2);
                    n_pairs += o.transitions;
                    if outs.iter().all(|(l, _)| l != "nl-strips") {
                        outs.push(("nl-strips".into(), o));
                    }
                }
            }
        }
        run.add("nl_strip_transitions", n_pairs);
    }
    // longitude-zone rounding ties
    {
        let rxt = (5.0, 0.05);
        let dt = if tier.thorough() { 5 } else { 4 };
        let o = explore(&run, &format!("C13/lon-ties/d{dt}"), tracker(alphabet_c13_lonties(), rxt, 2000.0, 1_000_000_000, 13), dt);
        outs.push(("lon-ties".into(), o));
    }
    // receivers next to the poles: raw reports on and next to the +-90 deg zone latitudes (NL = 1)
    for (label, south) in [("south-pole", true), ("north-pole", false)] {
        let rxp = if south { (-89.9, 30.0) } else { (89.9, 30.0) };
        let dp = if tier.thorough() { 6 } else { 4 };
        let o = explore(&run, &format!("C13/{label}/d{dp}"), tracker(alphabet_c13_poles(south), rxp, 400.0, 1_000_000_000, 13), dp);
        outs.push((label.into(), o));
    }
    // deep single-aircraft histories
    let dd = if tier.thorough() { 9 } else { 7 };
    let rx0 = (35.0, -80.0);
    let o = explore(&run, &format!("C13/deep/d{dd}"), tracker(alphabet_c13_deep(rx0, 2000.0), rx0, 2000.0, 1_000_000_000, 13), dd);
    outs.push(("deep".into(), o));
    {
        let ll = if tier.thorough() { 3000 } else { 1200 };
        let o = lasso(&run, &format!("C13/lasso/p2x{ll}"), tracker(alphabet_c13(rx0, 2000.0, Tier::Quick), rx0, 2000.0, 1_000_000_000, 13), 2, ll);
        outs.push(("lasso".into(), o));
        let o = lasso(&run, &format!("C13/lasso-deep/p3x{ll}"), tracker(alphabet_c13_deep(rx0, 2000.0), rx0, 2000.0, 1_000_000_000, 13), 3, ll);
        outs.push(("lasso-deep".into(), o));
    }
    // receiver at the antipode of the flight: everything is out of range
    let alpha = alphabet_c13(f1_start, 500.0, tier);
    let o = explore(&run, &format!("C13/rx-antipode/d{}", depth.min(4)), tracker(alpha, antipode, 500.0, 1_000_000_000, 13), depth.min(4));
    outs.push(("rx-antipode".into(), o));
    finish(run, &outs, vec!["either pairing order (even-then-odd or odd-then-even) is accepted for the published position".into()])
}

pub fn c14(tier: Tier) -> i32 {
    let run = Run::new("C14", tier);
    assert!(vclock::self_test());
    let depth = if tier.thorough() { 6 } else { 5 };
    let mut outs = vec![];
    let rx = (35.0, -80.0);
    let o = explore(&run, &format!("C14/attrs/d{depth}"), tracker(alphabet_c14(rx), rx, 500.0, 1_000_000_000, 14), depth);
    outs.push(("attrs".into(), o));
    // an aircraft at exactly 0 N 0 E is an aircraft with a position
    {
        let rxn = (0.1, 0.1);
        let dn = if tier.thorough() { 6 } else { 5 };
        let o = explore(&run, &format!("C14/null-island/d{dn}"), tracker(alphabet_c14_nullisland(), rxn, 500.0, 1_000_000_000, 14), dn);
        outs.push(("null-island".into(), o));
    }
    // altitude codes in paired reports (0 ft is an altitude)
    {
        let da = if tier.thorough() { 6 } else { 5 };
        let o = explore(&run, &format!("C14/altitudes/d{da}"), tracker(alphabet_c14_altitudes(rx), rx, 500.0, 1_000_000_000, 14), da);
        outs.push(("altitudes".into(), o));
    }
    // velocity reports one attribute apart (vertical rate only / track only / speed only): latest-wins per attribute
    {
        let dv = if tier.thorough() { 6 } else { 5 };
        let o = explore(&run, &format!("C14/velocity/d{dv}"), tracker(alphabet_c14_velocity(), rx, 500.0, 1_000_000_000, 14), dv);
        outs.push(("velocity".into(), o));
    }
    // the position-centred alphabet of C13 under the C14 oracles (track, views)
    let d2 = if tier.thorough() { 6 } else { 4 };
    let o = explore(&run, &format!("C14/positions/d{d2}"), tracker(alphabet_c13(rx, 500.0, tier), rx, 500.0, 1_000_000_000, 14), d2);
    outs.push(("positions".into(), o));
    let dd = if tier.thorough() { 8 } else { 6 };
    let o = explore(&run, &format!("C14/deep/d{dd}"), tracker(alphabet_c13_deep(rx, 2000.0), rx, 2000.0, 1_000_000_000, 14), dd);
    outs.push(("deep".into(), o));
    {
        let ll = if tier.thorough() { 3000 } else { 1200 };
        let o = lasso(&run, &format!("C14/lasso/p2x{ll}"), tracker(alphabet_c14(rx), rx, 500.0, 1_000_000_000, 14), 2, ll);
        outs.push(("lasso".into(), o));
        let o = lasso(&run, &format!("C14/lasso-deep/p3x{ll}"), tracker(alphabet_c13_deep(rx, 2000.0), rx, 2000.0, 1_000_000_000, 14), 3, ll);
        outs.push(("lasso-deep".into(), o));
        // tracks of more than a thousand superseded positions (a capacity bound on the track would drop the oldest)
        let (lp, lt) = if tier.thorough() { (4, 4000) } else { (3, 1700) };
        let o = lasso(&run, &format!("C14/long-track/p{lp}x{lt}"), tracker(alphabet_c14_longtrack(rx), rx, 500.0, 1_000_000_000, 14), lp, lt);
        outs.push(("long-track".into(), o));
    }
    finish(
        run,
        &outs,
        vec![
            "track oracle: the positioned track entries are, in order, the publication events that are no longer current; an event directly superseded by a different accepted position must be present, events lost through a clear of the record or re-published unchanged may be absent; the current position is never in the track".into(),
            "details altitude may be that of either stored report".into(),
        ],
    )
}

pub fn c15(tier: Tier) -> i32 {
    let run = Run::new("C15", tier);
    assert!(vclock::self_test());
    let depth = if tier.thorough() { 9 } else { 6 };
    let mut outs = vec![];
    for t in [10u64, 1, 0] {
        let o = explore(&run, &format!("C15/T{t}/d{depth}"), tracker(alphabet_c15(t), (35.0, -80.0), 500.0, 0, 15), depth);
        outs.push((format!("T{t}"), o));
        let ll = if tier.thorough() { 600 } else { 200 };
        let o = lasso(&run, &format!("C15/T{t}/lasso/p3x{ll}"), tracker(alphabet_c15(t), (35.0, -80.0), 500.0, 0, 15), 3, ll);
        outs.push((format!("T{t}-lasso"), o));
    }
    // several thresholds in ONE history (expiry must not remember anything about an earlier call), path by path
    {
        let dm = if tier.thorough() { 7 } else { 6 };
        let o = explore(&run, &format!("C15/mixed-T-paths/d{dm}"), tracker_paths(alphabet_c15_mixed(), (35.0, -80.0), 500.0, 0, 15), dm);
        outs.push(("mixed-T-paths".into(), o));
    }
    finish(run, &outs, vec!["time only moves through explicit wait events (frames are instantaneous) so that the boundary T - 1 ns / T is hit exactly".into()])
}

/// Re-execute one recorded history (`prop=.. rx=..,.. range=.. step=.. | ev ; ev ; ...`) on a fresh
/// tracker without the explorer, printing the oracle verdicts after every event.
pub fn replay_history(input: &str) -> i32 {
    let (cfg, script) = input.split_once(" | ").unwrap_or((input, ""));
    let mut prop = 12u8;
    let mut rx = (35.0, -80.0);
    let mut range = 500.0;
    let mut step = 1_000_000_000u64;
    for kv in cfg.split_whitespace() {
        if let Some((k, v)) = kv.split_once('=') {
            match k {
                "prop" => prop = v.parse().unwrap_or(12),
                "rx" => {
                    if let Some((a, b)) = v.split_once(',') {
                        rx = (a.parse().unwrap_or(0.0), b.parse().unwrap_or(0.0));
                    }
                }
                "range" => range = v.parse().unwrap_or(500.0),
                "step" => step = v.parse().unwrap_or(0),
                _ => {}
            }
        }
    }
    let mut alphabet = vec![];
    for tok in script.split(" ; ") {
        let tok = tok.trim();
        if tok.is_empty() {
            continue;
        }
        if let Some(r) = tok.strip_prefix("wait(") {
            alphabet.push(Ev::Wait(r.trim_end_matches("ns)").parse().unwrap_or(0)));
        } else if let Some(r) = tok.strip_prefix("prune(") {
            alphabet.push(Ev::Prune(r.trim_end_matches("s)").parse().unwrap_or(0)));
        } else if let Some(r) = tok.strip_prefix("rx(") {
            if let Some((a, b)) = r.trim_end_matches(')').split_once(',') {
                alphabet.push(Ev::Rx(a.parse().unwrap_or(0.0), b.parse().unwrap_or(0.0)));
            }
        } else if let (Some(i), Some(j)) = (tok.find('['), tok.find(']')) {
            alphabet.push(Ev::Frame { name: tok[..i].to_string(), bytes: crate::bits::unhex(&tok[i + 1..j]) });
        }
    }
    let m = tracker(alphabet, rx, range, step, prop);
    let mut s = m.init_states().remove(0);
    let mut bad = 0;
    for i in 0..m.alphabet.len() {
        match m.next_state(&s, i) {
            Some(n) => s = n,
            None => {
                println!("event {i} {}: threshold too close to call (transition not taken)", m.alphabet[i].name());
                break;
            }
        }
        println!("after {} : {} aircraft", m.alphabet[i].name(), s.real.len());
        for (k, st) in s.real.iter() {
            println!("   {k}: msgs={} callsign={:?} position={:?} dist={:?} slots=[{},{}] track={}", st.num_messages, st.callsign, st.coords.position, st.coords.kilo_distance,
                st.coords.altitudes[0].is_some(), st.coords.altitudes[1].is_some(), st.track.as_ref().map_or(0, Vec::len));
        }
        for v in &s.viol {
            bad += 1;
            println!("   VIOLATED C{} {}: expected {} observed {}", v.0, v.1, v.2, v.3);
        }
    }
    println!("replay: {bad} oracle violations");
    0
}

