//! Pure case generator of the E1 lattice (no dependency on the subject): dispatch leaves, context
//! alphabet, field sweeps, boundary pairs. Shared with the configuration harness (C20) via #[path].

use std::collections::BTreeSet;

use crate::bits::{flip_bit, lfsr_bytes, set_bits};
use crate::refdec::{layout, FieldDef, Kind};

#[derive(Clone, Copy, PartialEq, Eq, Debug)]
pub enum Tier {
    Quick,
    Thorough,
}

impl Tier {
    pub fn name(self) -> &'static str {
        match self {
            Tier::Quick => "quick",
            Tier::Thorough => "thorough",
        }
    }
    pub fn thorough(self) -> bool {
        self == Tier::Thorough
    }
}

#[derive(Clone, Debug)]
pub struct LeafSpec {
    pub name: String,
    pub nbits: usize,
    /// (first bit, width, value) applied on top of every context
    pub fixed: Vec<(u16, u8, u64)>,
}

pub fn all_leaves() -> Vec<LeafSpec> {
    let mut v = vec![];
    let short = |df: u64| LeafSpec { name: format!("DF{df}"), nbits: 56, fixed: vec![(1, 5, df)] };
    for df in [0u64, 4, 5, 11] {
        v.push(short(df));
    }
    v.push(LeafSpec { name: "DF16".into(), nbits: 112, fixed: vec![(1, 5, 16)] });
    v.push(LeafSpec { name: "DF19".into(), nbits: 112, fixed: vec![(1, 5, 19)] });
    for df in [17u64, 18] {
        for tc in 0u64..32 {
            match tc {
                19 => {
                    for st in 0u64..8 {
                        v.push(LeafSpec {
                            name: format!("DF{df}/TC19/ST{st}"),
                            nbits: 112,
                            fixed: vec![(1, 5, df), (33, 5, tc), (38, 3, st)],
                        });
                    }
                }
                31 => {
                    for st in 0u64..8 {
                        let mut fixed = vec![(1, 5, df), (33, 5, tc), (38, 3, st)];
                        if st == 0 {
                            fixed.extend([(41, 2, 0), (45, 2, 0), (57, 2, 0)]);
                            for ver in 0u64..3 {
                                let mut fx = fixed.clone();
                                fx.push((73, 3, ver));
                                v.push(LeafSpec { name: format!("DF{df}/TC31/ST0/V{ver}"), nbits: 112, fixed: fx });
                            }
                        } else if st == 1 {
                            fixed.extend([(41, 2, 0), (57, 2, 0)]);
                            for ver in 0u64..3 {
                                let mut fx = fixed.clone();
                                fx.push((73, 3, ver));
                                v.push(LeafSpec { name: format!("DF{df}/TC31/ST1/V{ver}"), nbits: 112, fixed: fx });
                            }
                        } else {
                            v.push(LeafSpec { name: format!("DF{df}/TC31/ST{st}"), nbits: 112, fixed });
                        }
                    }
                }
                _ => v.push(LeafSpec {
                    name: format!("DF{df}/TC{tc}"),
                    nbits: 112,
                    fixed: vec![(1, 5, df), (33, 5, tc)],
                }),
            }
        }
    }
    for df in [20u64, 21] {
        for bds in [0x00u64, 0x10, 0x20, 0x30, 0x01, 0xff] {
            v.push(LeafSpec {
                name: format!("DF{df}/BDS{bds:02x}"),
                nbits: 112,
                fixed: vec![(1, 5, df), (33, 8, bds)],
            });
        }
    }
    for df in 24u64..32 {
        v.push(LeafSpec { name: format!("DF{df}"), nbits: 112, fixed: vec![(1, 5, df)] });
    }
    v
}

/// Context alphabet K (DESIGN 2.4): surroundings for the field under test.
pub fn contexts(nbytes: usize, tier: Tier, seed: u64) -> Vec<(&'static str, Vec<u8>)> {
    let mut k = vec![
        ("zeros", vec![0u8; nbytes]),
        ("ones", vec![0xffu8; nbytes]),
        ("0x55", vec![0x55u8; nbytes]),
        ("0xaa", vec![0xaau8; nbytes]),
        ("lfsr1", lfsr_bytes(0x1d2c ^ (seed as u16), nbytes)),
    ];
    if tier.thorough() {
        k.push(("lfsr2", lfsr_bytes(0x7a31 ^ (seed as u16).rotate_left(3), nbytes)));
        k.push(("lfsr3", lfsr_bytes(0xbeef ^ (seed as u16).rotate_left(7), nbytes)));
        k.push(("0x33", vec![0x33u8; nbytes]));
        k.push(("0xcc", vec![0xccu8; nbytes]));
    }
    k
}

pub fn boundary_values(width: u8) -> Vec<u64> {
    let w = u32::from(width);
    let max = if w >= 64 { u64::MAX } else { (1u64 << w) - 1 };
    let mut s: BTreeSet<u64> = BTreeSet::new();
    for v in [0u64, 1, 2, 3] {
        s.insert(v & max);
    }
    for d in 0..3u64 {
        s.insert(max - d.min(max));
    }
    for i in 0..w {
        s.insert(1u64 << i);
        s.insert((1u64 << i).wrapping_sub(1) & max);
        s.insert(((1u64 << i) + 1) & max);
    }
    s.insert(0x5555_5555_5555_5555 & max);
    s.insert(0xaaaa_aaaa_aaaa_aaaa & max);
    s.into_iter().collect()
}

pub fn sweep_values(width: u8, tier: Tier) -> Vec<u64> {
    let full_upto = if tier.thorough() { 17 } else { 13 };
    if width <= full_upto {
        (0..(1u64 << width)).collect()
    } else if width <= 17 {
        let mut s: BTreeSet<u64> = boundary_values(width).into_iter().collect();
        let mut v = 0u64;
        while v < (1u64 << width) {
            s.insert(v);
            v += 127;
        }
        s.into_iter().collect()
    } else {
        boundary_values(width)
    }
}

/// A generated case with the properties owning the field(s) that were varied to produce it
/// (0 = none: base frame, or a bit outside every judged field).
#[derive(Clone, Debug, PartialEq, Eq, PartialOrd, Ord)]
pub struct Case {
    pub bytes: Vec<u8>,
    pub owners: (u8, u8),
}

pub fn unit_cases(leaf: &LeafSpec, ctx: &[u8], tier: Tier, sweep: bool, pairs: bool) -> Vec<Vec<u8>> {
    unit_cases_tagged(leaf, ctx, tier, sweep, pairs).into_iter().map(|c| c.bytes).collect()
}

/// One work unit = one leaf under one context. Returns the de-duplicated case list; the first
/// element is always the base frame of the unit.
pub fn unit_cases_tagged(leaf: &LeafSpec, ctx: &[u8], tier: Tier, sweep: bool, pairs: bool) -> Vec<Case> {
    let mut base = ctx.to_vec();
    for (first, width, val) in &leaf.fixed {
        set_bits(&mut base, *first as usize, *width as usize, *val);
    }
    let mut out: Vec<Case> = vec![];
    let lay = match layout(&base) {
        Ok(l) => l,
        Err(_) => return vec![Case { bytes: base, owners: (0, 0) }],
    };
    let owner_of_bit = |bit: usize| -> u8 {
        lay.fields
            .iter()
            .find(|f| f.prop != 0 && bit >= f.first as usize && bit < f.first as usize + f.width as usize)
            .map_or(0, |f| f.prop)
    };
    // bit-walk over non-dispatch bits
    for bit in 1..=leaf.nbits {
        if lay.dispatch.iter().any(|(f, w)| bit >= *f as usize && bit < (*f + u16::from(*w)) as usize) {
            continue;
        }
        let mut b = base.clone();
        flip_bit(&mut b, bit);
        out.push(Case { bytes: b, owners: (owner_of_bit(bit), 0) });
    }
    if sweep {
        for fd in &lay.fields {
            if fd.kind == Kind::Callsign {
                // eight 6-bit characters: every code at every position
                for pos in 0..8u16 {
                    for c in 0..64u64 {
                        let mut b = base.clone();
                        set_bits(&mut b, (fd.first + 6 * pos) as usize, 6, c);
                        out.push(Case { bytes: b, owners: (fd.prop, 0) });
                    }
                }
                continue;
            }
            if lay.dispatch.iter().any(|(f, w)| *f == fd.first && *w == fd.width) && fd.first != 73 {
                continue;
            }
            for v in sweep_values(fd.width, tier) {
                let mut b = base.clone();
                set_bits(&mut b, fd.first as usize, fd.width as usize, v);
                out.push(Case { bytes: b, owners: (fd.prop, 0) });
            }
        }
    }
    if pairs {
        let fs: Vec<&FieldDef> = lay.fields.iter().filter(|f| f.kind != Kind::Opaque).collect();
        for i in 0..fs.len() {
            for j in (i + 1)..fs.len() {
                let (a, b_) = (fs[i], fs[j]);
                let va = small_boundary(a.width);
                let vb = small_boundary(b_.width);
                for x in &va {
                    for y in &vb {
                        let mut b = base.clone();
                        set_bits(&mut b, a.first as usize, a.width as usize, *x);
                        set_bits(&mut b, b_.first as usize, b_.width as usize, *y);
                        // keep the dispatch path
                        for (first, width, val) in &leaf.fixed {
                            set_bits(&mut b, *first as usize, *width as usize, *val);
                        }
                        out.push(Case { bytes: b, owners: (a.prop, b_.prop) });
                    }
                }
            }
        }
    }
    out.sort();
    out.dedup_by(|x, y| x.bytes == y.bytes);
    out.retain(|c| c.bytes != base);
    out.insert(0, Case { bytes: base, owners: (0, 0) });
    out
}

fn small_boundary(width: u8) -> Vec<u64> {
    let max = (1u64 << width) - 1;
    let mut s: BTreeSet<u64> = [0u64, 1, max, max.saturating_sub(1), max / 2, max / 2 + 1, 0x5555_5555_5555 & max]
        .into_iter()
        .collect();
    s.insert(0xaaaa_aaaa_aaaa & max);
    s.into_iter().collect()
}

