//! Event type and the finite event alphabets of the tracker models (pure: built with R-enc / R-cpr).
//! Shared with the configuration harness (C20) via #[path].
#![allow(dead_code)]

use crate::cprref::haversine_km;
use crate::enc;
use crate::gen::Tier;

// ------------------------------------------------------------------ events
#[derive(Clone, Debug)]
pub enum Ev {
    Frame { name: String, bytes: Vec<u8> },
    Wait(u64),
    Prune(u64),
    /// the receiver location passed to the following action() calls changes (radar does this from gpsd)
    Rx(f64, f64),
}

impl Ev {
    pub fn name(&self) -> String {
        match self {
            Ev::Frame { name, bytes } => format!("{name}[{}]", crate::bits::hex(bytes)),
            Ev::Wait(ns) => format!("wait({ns}ns)"),
            Ev::Prune(t) => format!("prune({t}s)"),
            Ev::Rx(la, lo) => format!("rx({la},{lo})"),
        }
    }
}

// ------------------------------------------------------------------ alphabets
fn fr(name: &str, bytes: Vec<u8>) -> Ev {
    Ev::Frame { name: name.to_string(), bytes }
}

/// destination point at `km` and bearing `deg` from (lat, lon) on the sphere R = 6371 km
pub fn dest(from: (f64, f64), km: f64, deg: f64) -> (f64, f64) {
    let (la, lo) = (from.0.to_radians(), from.1.to_radians());
    let d = km / 6371.0;
    let b = deg.to_radians();
    let la2 = (la.sin() * d.cos() + la.cos() * d.sin() * b.cos()).asin();
    let lo2 = lo + (b.sin() * d.sin() * la.cos()).atan2(d.cos() - la.sin() * la2.sin());
    let mut lon = lo2.to_degrees();
    if lon >= 180.0 {
        lon -= 360.0;
    }
    if lon < -180.0 {
        lon += 360.0;
    }
    (la2.to_degrees(), lon)
}

fn pos_letters(tag: &str, addr: u32, p: (f64, f64), alt: i64) -> Vec<Ev> {
    vec![
        fr(&format!("{tag}.even"), enc::es_frame(17, 5, addr, enc::me_pos_latlon(11, alt, false, p.0, p.1))),
        fr(&format!("{tag}.odd"), enc::es_frame(17, 5, addr, enc::me_pos_latlon(11, alt, true, p.0, p.1))),
    ]
}

pub const A1: u32 = 0x000001;
pub const A2: u32 = 0x000100;
pub const A3: u32 = 0xabcdef;

pub fn alphabet_c12() -> Vec<Ev> {
    let mut v = vec![];
    let p1 = (35.2, -80.2);
    for (n, a) in [("a1", A1), ("a2", A2)] {
        v.push(fr(&format!("{n}.identAAA"), enc::es_frame(17, 5, a, enc::me_ident(4, 0, "AAA"))));
        v.push(fr(&format!("{n}.identBBB"), enc::es_frame(17, 5, a, enc::me_ident(2, 3, "BBB"))));
        // eight space characters: a legal, blank identification (decodes to the empty string)
        v.push(fr(&format!("{n}.identBlank"), enc::es_frame(17, 5, a, enc::me_ident(4, 0, "        "))));
        v.push(fr(&format!("{n}.vel"), enc::es_frame(17, 5, a, enc::me_vel_kt(100, -200, 640))));
        v.push(fr(&format!("{n}.vel0"), enc::es_frame(17, 5, a, enc::me_vel_gs(1, 0, 0, 0, 5, 0, 0, 3))));
        v.extend(pos_letters(&format!("{n}.p1"), a, p1, 10000));
        v.push(fr(&format!("{n}.tc0"), enc::es_frame(17, 5, a, 0x1234)));
        v.push(fr(&format!("{n}.tc28"), enc::es_frame(17, 5, a, 28u64 << 51 | 1 << 48 | 0x1200 << 29)));
        v.push(fr(&format!("{n}.tc29"), enc::es_frame(17, 5, a, 29u64 << 51 | 1 << 49)));
        v.push(fr(&format!("{n}.tc31"), enc::es_frame(17, 5, a, 31u64 << 51)));
        // DF18: AA = the address, PI = *another* alphabet address
        let other = if a == A1 { A2 } else { A3 };
        v.push(fr(&format!("{n}.df18cf0.ident"), enc::df18_with_pi(0, a, enc::me_ident(4, 0, "TIS"), other)));
        v.push(fr(&format!("{n}.df18cf2.pos"), enc::df18_with_pi(2, a, enc::me_pos_latlon(11, 5000, false, p1.0, p1.1), other)));
        v.push(fr(&format!("{n}.df18cf6.vel"), enc::df18_with_pi(6, a, enc::me_vel_kt(-50, 70, -128), other)));
    }
    // a report that cannot pair with p1 (3000 km away): the position record is rejected, the accounting must not be
    let far = dest(p1, 3000.0, 100.0);
    v.push(fr("a1.far.odd", enc::es_frame(17, 5, A1, enc::me_pos_latlon(11, 30000, true, far.0, far.1))));
    v.push(fr("a3.identCCC", enc::es_frame(17, 5, A3, enc::me_ident(4, 0, "CCC"))));
    v.push(fr("a3.p1.even", enc::es_frame(17, 5, A3, enc::me_pos_latlon(11, 3000, false, p1.0, p1.1))));
    // non-ES formats carrying a1 in their address bits
    v.push(fr("nonES.df0", enc::short_reply(0, 0x0000ab0, A1)));
    v.push(fr("nonES.df4", enc::short_reply(4, 0x00012b0, A1)));
    v.push(fr("nonES.df5", enc::short_reply(5, 0x0000516, A1)));
    v.push(fr("nonES.df11", enc::df11_frame(5, A1, 0)));
    v.push(fr("nonES.df16", enc::long_reply(16, 0x0000ab0, 0x1122_3344_5566_77, A1)));
    v.push(fr("nonES.df20", enc::long_reply(20, 0x00012b0, 0x2004_20c4_1234_56, A1)));
    v.push(fr("nonES.df21", enc::long_reply(21, 0x0000516, 0x1000_0000_0000_00, A1)));
    let mut df24 = vec![0u8; 14];
    crate::bits::set_bits(&mut df24, 1, 5, 24);
    crate::bits::set_bits(&mut df24, 6, 3, 5);
    crate::bits::set_bits(&mut df24, 9, 24, u64::from(A1));
    v.push(fr("nonES.df24", df24));
    v
}

pub const A0: u32 = 0x000000;

/// C12 over every extended-squitter type code and the all-zero address: DF17 frames of all 32 type codes (payload
/// otherwise zero; those the decoder rejects are left out) from address 000000 and from a1, a few DF18 forms, one non-ES
pub fn alphabet_c12_typecodes() -> Vec<Ev> {
    let mut v = vec![];
    for (n, a) in [("a0", A0), ("a1", A1)] {
        for tc in 0..32u64 {
            let bytes = enc::es_frame(17, 5, a, tc << 51);
            if adsb_deku::Frame::from_bytes(&bytes).is_ok() {
                v.push(fr(&format!("{n}.tc{tc}"), bytes));
            }
        }
    }
    v.push(fr("a0.identAAA", enc::es_frame(17, 5, A0, enc::me_ident(4, 0, "AAA"))));
    v.extend(pos_letters("a0.p1", A0, (35.2, -80.2), 10000));
    v.push(fr("a0.df18.tc23", enc::df18_with_pi(2, A0, 23u64 << 51, A1)));
    v.push(fr("a1.df18.tc23", enc::df18_with_pi(2, A1, 23u64 << 51, A0)));
    v.push(fr("nonES.df11.a0", enc::df11_frame(5, A0, 0)));
    v
}

/// C12 "the tracked set only ever shrinks through expiry": accounting letters of two aircraft interleaved with expiry
/// calls while virtual time advances one second per event (so a record is 0..depth seconds old when prune runs)
/// expiry calls with different thresholds inside one history (round 7c: a prune that memoises "nothing can expire
/// before ..." from one call and consults it for the next, whatever its threshold)
pub fn alphabet_c15_mixed() -> Vec<Ev> {
    vec![
        fr("a1.ident", enc::es_frame(17, 5, A1, enc::me_ident(4, 0, "AAA"))),
        fr("a2.vel", enc::es_frame(17, 5, A2, enc::me_vel_kt(100, -200, 640))),
        Ev::Wait(1_000_000_000),
        Ev::Wait(4_000_000_000),
        Ev::Prune(3600),
        Ev::Prune(5),
        Ev::Prune(1),
        Ev::Prune(0),
    ]
}

pub fn alphabet_c12_expiry() -> Vec<Ev> {
    let p1 = (35.2, -80.2);
    let mut v = vec![];
    v.push(fr("a1.identAAA", enc::es_frame(17, 5, A1, enc::me_ident(4, 0, "AAA"))));
    v.push(fr("a1.vel", enc::es_frame(17, 5, A1, enc::me_vel_kt(100, -200, 640))));
    v.extend(pos_letters("a1.p1", A1, p1, 10000));
    v.push(fr("a1.tc28", enc::es_frame(17, 5, A1, 28u64 << 51 | 1 << 48 | 0x1200 << 29)));
    v.push(fr("a2.identBBB", enc::es_frame(17, 5, A2, enc::me_ident(2, 3, "BBB"))));
    v.extend(pos_letters("a2.p1", A2, p1, 11000));
    v.push(fr("nonES.df11", enc::df11_frame(5, A1, 0)));
    v.push(Ev::Prune(2));
    v.push(Ev::Prune(3));
    v
}

/// position reports of every carrier: DF17 barometric (TC 11), DF17 GNSS height (TC 21), DF18 barometric, DF18 GNSS
/// height (TC 20) along one flight - the tracker rules do not depend on the carrier
pub fn alphabet_c13_carriers(rx: (f64, f64)) -> Vec<Ev> {
    let start = dest(rx, 20.0, 45.0);
    let pts: Vec<(f64, f64)> = (0..4).map(|i| dest(start, 2.0 * i as f64, 60.0)).collect();
    let mut v = vec![];
    v.extend(pos_letters("a1.f0", A1, pts[0], 10000));
    for odd in [false, true] {
        let par = if odd { "odd" } else { "even" };
        v.push(fr(&format!("a1.df18gnss.f1.{par}"), enc::df18_with_pi(2, A1, enc::me_pos_latlon(20, 10100, odd, pts[1].0, pts[1].1), A2)));
        v.push(fr(&format!("a1.df17gnss.f2.{par}"), enc::es_frame(17, 5, A1, enc::me_pos_latlon(21, 10200, odd, pts[2].0, pts[2].1))));
        v.push(fr(&format!("a1.df18baro.f3.{par}"), enc::df18_with_pi(6, A1, enc::me_pos_latlon(12, 10300, odd, pts[3].0, pts[3].1), A2)));
    }
    v
}

/// longitude-zone rounding ties: pairs whose index argument (NL-1)*XZ_even - NL*XZ_odd is exactly a negative or
/// positive half-integer (NL = 59 near 5 deg north), next to an ordinary pair
pub fn alphabet_c13_lonties() -> Vec<Ev> {
    let lat = 5.0;
    let (ye, _) = crate::cprref::encode(lat, 0.05, false);
    let (yo, _) = crate::cprref::encode(lat, 0.05, true);
    let mut v = vec![];
    let inv59 = (1..131072i64).find(|x| (59 * x) % 131072 == 1).unwrap_or(1);
    for (i, xe) in [46i64, 1046, 300].into_iter().enumerate() {
        // 58*xe - 59*xo = -65536 (mod 131072)
        let xo = ((58 * xe + 65536).rem_euclid(131072) * inv59).rem_euclid(131072);
        v.push(fr(&format!("a1.tie{i}.even"), enc::es_frame(17, 5, A1, enc::me_pos(11, 0, 0, enc::ac12_q(9000), 0, false, ye, xe as u32))));
        v.push(fr(&format!("a1.tie{i}.odd"), enc::es_frame(17, 5, A1, enc::me_pos(11, 0, 0, enc::ac12_q(9000), 0, true, yo, xo as u32))));
    }
    v.extend(pos_letters("a1.plain", A1, (lat, 0.05), 9000));
    v
}

/// a pair that decodes to exactly 0 N 0 E (all four CPR values zero) next to an ordinary aircraft
pub fn alphabet_c14_nullisland() -> Vec<Ev> {
    let mut v = vec![];
    for odd in [false, true] {
        v.push(fr(&format!("a1.zero.{}", if odd { "odd" } else { "even" }), enc::es_frame(17, 5, A1, enc::me_pos(11, 0, 0, enc::ac12_q(5000), 0, odd, 0, 0))));
    }
    v.extend(pos_letters("a2.p", A2, (0.2, 0.1), 7000));
    v.push(fr("a1.identAAA", enc::es_frame(17, 5, A1, enc::me_ident(4, 0, "AAA"))));
    v
}

/// raw position reports on and next to the polar zone latitudes: even YZ 0 in zone 45 is exactly -90 deg (270 before the
/// wrap), odd YZ 32768 in zone 44 likewise; even YZ 0 in zone 15 / odd YZ 98304 in zone 14 are exactly +90 deg
pub fn alphabet_c13_poles(south: bool) -> Vec<Ev> {
    let xz = 10_923; // 30 deg east at NL = 1
    let (evens, odds): (Vec<u32>, Vec<u32>) = if south { (vec![200, 0, 1], vec![33_100, 33_050, 32_768]) } else { (vec![130_900, 0, 131_071, 1, 200], vec![98_200, 98_250, 98_304]) };
    let mut v = vec![];
    for yz in evens {
        v.push(fr(&format!("a1.even.yz{yz}"), enc::es_frame(17, 5, A1, enc::me_pos(11, 0, 0, enc::ac12_q(9000), 0, false, yz, xz))));
    }
    for yz in odds {
        v.push(fr(&format!("a1.odd.yz{yz}"), enc::es_frame(17, 5, A1, enc::me_pos(11, 0, 0, enc::ac12_q(9100), 0, true, yz, xz))));
    }
    v.push(fr("a2.even.yz0", enc::es_frame(17, 5, A2, enc::me_pos(11, 0, 0, enc::ac12_q(5000), 0, false, 0, xz))));
    v
}

pub fn alphabet_c13(rx: (f64, f64), range: f64, tier: Tier) -> Vec<Ev> {
    let mut v = vec![];
    // flight F1: points 2 km apart starting 20 km from the receiver
    let start = dest(rx, 20.0, 45.0);
    let npts = if tier.thorough() { 4 } else { 3 };
    let mut pts = vec![];
    for i in 0..npts {
        pts.push(dest(start, 2.0 * i as f64, 60.0));
    }
    for (i, p) in pts.iter().enumerate() {
        v.extend(pos_letters(&format!("a1.f{i}"), A1, *p, 10000 + 100 * i as i64));
    }
    // jumps measured from F1's first point (bearing 200: away from the flight)
    for (name, km) in [("jump99.5", 99.5), ("jump100.5", 100.5)] {
        let p = dest(pts[0], km, 200.0);
        v.extend(pos_letters(&format!("a1.{name}"), A1, p, 12000));
    }
    // a deliberately inconsistent odd report which, paired with F1's first even report, decodes to a
    // valid in-range position more than 100 km from F1 (found by deterministic search): the jump rule
    if let Some((yz, xz)) = find_jump_odd(rx, range, pts[0]) {
        v.push(fr("a1.jumper.odd", enc::es_frame(17, 5, A1, enc::me_pos(11, 0, 0, enc::ac12_q(15000), 0, true, yz, xz))));
    }
    // where NL = 1 (|lat| > 87) the longitude of a single report is unconstrained, so a displacement along
    // the parallel probes the 100 km jump rule at +-0.5 km through ordinary consistent reports
    if crate::cprref::nl(pts[0].0) == 1 {
        for (name, km) in [("pjump99.5", 99.5), ("pjump100.5", 100.5), ("pjump99.92", 99.92), ("pjump100.08", 100.08)] {
            let (mut lo, mut hi) = (0.0f64, 90.0f64);
            for _ in 0..60 {
                let mid = (lo + hi) / 2.0;
                if haversine_km(pts[0], (pts[0].0, pts[0].1 + mid)) < km {
                    lo = mid;
                } else {
                    hi = mid;
                }
            }
            let mut lon = pts[0].1 + lo;
            if lon >= 180.0 {
                lon -= 360.0;
            }
            v.extend(pos_letters(&format!("a1.{name}"), A1, (pts[0].0, lon), 10000));
        }
    }
    // range boundary (bearing 300) and far outside
    for (name, km) in [("range-0.5", range - 0.5), ("range+0.5", range + 0.5)] {
        let p = dest(rx, km, 300.0);
        v.extend(pos_letters(&format!("a1.{name}"), A1, p, 9000));
    }
    // garbage: the odd report from a place 3000 km away
    let far = dest(rx, 3000.0, 100.0);
    v.push(fr("a1.far.odd", enc::es_frame(17, 5, A1, enc::me_pos_latlon(11, 30000, true, far.0, far.1))));
    // a report without altitude
    v.push(fr("a1.noalt.even", enc::es_frame(17, 5, A1, enc::me_pos(11, 0, 0, 0, 0, false, crate::cprref::encode(pts[1].0, pts[1].1, false).0, crate::cprref::encode(pts[1].0, pts[1].1, false).1))));
    // second aircraft
    let q = dest(rx, 30.0, 180.0);
    v.extend(pos_letters("a2.q0", A2, q, 2000));
    // the receiver itself moves 10 km (and back): distances are measured from where it is at each call
    let moved = dest(rx, 10.0, 45.0);
    v.push(Ev::Rx(moved.0, moved.1));
    v.push(Ev::Rx(rx.0, rx.1));
    v
}

/// Search (deterministically) for an odd report whose pairing with the even report of `p0` is decodable,
/// within range of the receiver and 105..400 km away from `p0`.
fn find_jump_odd(rx: (f64, f64), range: f64, p0: (f64, f64)) -> Option<(u32, u32)> {
    use crate::cprref::{decode, encode, Decode, Rep};
    let (ey, ex) = encode(p0.0, p0.1, false);
    let e = Rep { odd: false, yz: ey, xz: ex };
    let mut yz = 0u32;
    while yz < 131072 {
        let mut xz = 0u32;
        while xz < 131072 {
            let o = Rep { odd: true, yz, xz };
            if let (Decode::Pos { lat, lon }, Decode::Pos { lat: lat2, lon: lon2 }) = (decode(e, o), decode(o, e)) {
                let ok = |p: (f64, f64)| {
                    let dj = haversine_km(p0, p);
                    let dr = haversine_km(rx, p);
                    dj > 105.0 && dr < range - 5.0
                };
                if ok((lat, lon)) && ok((lat2, lon2)) {
                    return Some((yz, xz));
                }
            }
            xz += 1024;
        }
        yz += 16;
    }
    None
}

/// single-aircraft sub-alphabet for deep histories (clear and re-publication need five events)
pub fn alphabet_c13_deep(rx: (f64, f64), range: f64) -> Vec<Ev> {
    let full = alphabet_c13(rx, range, Tier::Quick);
    full.into_iter()
        .filter(|e| match e {
            Ev::Frame { name, .. } => ["a1.f0.even", "a1.f0.odd", "a1.f1.even", "a1.far.odd", "a1.jumper.odd", "a1.range+0.5.odd"].contains(&name.as_str()),
            _ => false,
        })
        .collect()
}

/// altitude codes in paired reports: 0x20a is the one 12-bit code that decodes to exactly 0 ft (a legal altitude, not
/// "no altitude"), 0x000 carries no altitude at all
pub fn alphabet_c14_altitudes(rx: (f64, f64)) -> Vec<Ev> {
    let p0 = dest(rx, 15.0, 10.0);
    let mut v = vec![];
    for (name, ac) in [("alt0ft", 0x20au64), ("noalt", 0), ("alt10000", enc::ac12_q(10000)), ("alt100ft", enc::ac12_q(100))] {
        for odd in [false, true] {
            let (yz, xz) = crate::cprref::encode(p0.0, p0.1, odd);
            v.push(fr(&format!("a1.{name}.{}", if odd { "odd" } else { "even" }), enc::es_frame(17, 5, A1, enc::me_pos(11, 0, 0, ac, 0, odd, yz, xz))));
        }
    }
    v
}

/// two positions of one aircraft, both parities: periodic words over these four letters publish a different position
/// (a required track entry) on most events - for histories of more than a thousand publications
pub fn alphabet_c14_longtrack(rx: (f64, f64)) -> Vec<Ev> {
    let mut v = vec![];
    v.extend(pos_letters("a1.p0", A1, dest(rx, 15.0, 10.0), 10000));
    v.extend(pos_letters("a1.p1", A1, dest(rx, 17.0, 12.0), 11000));
    v
}

/// velocity reports of one aircraft that differ from `vel1` in exactly ONE derived attribute (vertical rate only,
/// track only at equal ground speed, ground speed only at equal track), plus the no-information and airspeed
/// sub-types and another aircraft: latest-wins must hold per attribute, not per "did the report change" (round 7)
pub fn alphabet_c14_velocity() -> Vec<Ev> {
    vec![
        fr("a1.vel1", enc::es_frame(17, 5, A1, enc::me_vel_kt(100, -200, 640))),
        fr("a1.vel1.vr-1024", enc::es_frame(17, 5, A1, enc::me_vel_kt(100, -200, -1024))),
        fr("a1.vel1.vr0", enc::es_frame(17, 5, A1, enc::me_vel_kt(100, -200, 0))),
        fr("a1.vel1.track", enc::es_frame(17, 5, A1, enc::me_vel_kt(200, -100, 640))),
        fr("a1.vel1.speed", enc::es_frame(17, 5, A1, enc::me_vel_kt(200, -400, 640))),
        fr("a1.vel0", enc::es_frame(17, 5, A1, enc::me_vel_gs(1, 0, 0, 0, 5, 0, 0, 3))),
        fr("a1.airspeed", enc::es_frame(17, 5, A1, 19u64 << 51 | 3 << 48 | 1 << 42 | 100 << 32 | 200 << 21 | 5 << 10)),
        fr("a2.vel1.vr-1024", enc::es_frame(17, 5, A2, enc::me_vel_kt(100, -200, -1024))),
    ]
}

pub fn alphabet_c14(rx: (f64, f64)) -> Vec<Ev> {
    let mut v = vec![];
    let p0 = dest(rx, 15.0, 10.0);
    let p1 = dest(rx, 17.0, 12.0);
    for (n, a) in [("a1", A1), ("a2", A2)] {
        v.push(fr(&format!("{n}.identAAA"), enc::es_frame(17, 5, a, enc::me_ident(4, 0, "AAA"))));
        v.push(fr(&format!("{n}.identB_B"), enc::es_frame(17, 5, a, enc::me_ident(4, 0, "B B12345"))));
        v.push(fr(&format!("{n}.identBlank"), enc::es_frame(17, 5, a, enc::me_ident(4, 0, "        "))));
        v.push(fr(&format!("{n}.vel1"), enc::es_frame(17, 5, a, enc::me_vel_kt(100, -200, 640))));
        v.push(fr(&format!("{n}.vel2"), enc::es_frame(17, 5, a, enc::me_vel_kt(-5, 300, -1280))));
        // same track as vel1 (bit-identical heading), twice the speed, another vertical rate
        v.push(fr(&format!("{n}.vel1x2"), enc::es_frame(17, 5, a, enc::me_vel_kt(200, -400, -64))));
        v.push(fr(&format!("{n}.vel0"), enc::es_frame(17, 5, a, enc::me_vel_gs(1, 0, 0, 0, 5, 0, 0, 3))));
        v.push(fr(&format!("{n}.airspeed"), enc::es_frame(17, 5, a, 19u64 << 51 | 3 << 48 | 1 << 42 | 100 << 32 | 200 << 21 | 5 << 10)));
        v.extend(pos_letters(&format!("{n}.p0"), a, p0, 10000));
    }
    v.extend(pos_letters("a1.p1", A1, p1, 11000));
    v.push(fr("a1.p0alt.even", enc::es_frame(17, 5, A1, enc::me_pos_latlon(11, 20000, false, p0.0, p0.1))));
    let far = dest(rx, 3000.0, 100.0);
    v.push(fr("a1.far.odd", enc::es_frame(17, 5, A1, enc::me_pos_latlon(11, 30000, true, far.0, far.1))));
    v
}

pub fn alphabet_c15(t: u64) -> Vec<Ev> {
    let ns = t * 1_000_000_000;
    let mut v = vec![
        fr("a1.ident", enc::es_frame(17, 5, A1, enc::me_ident(4, 0, "AAA"))),
        fr("a2.vel", enc::es_frame(17, 5, A2, enc::me_vel_kt(100, -200, 640))),
        fr("nonES.df11.a1", enc::df11_frame(5, A1, 0)),
        fr("a1.df18.tc0", enc::df18_with_pi(0, A1, 0, A2)),
        fr("a1.tc31", enc::es_frame(17, 5, A1, 31u64 << 51)),
        fr("a1.tc23", enc::es_frame(17, 5, A1, 23u64 << 51)),
        fr("a2.vel0", enc::es_frame(17, 5, A2, enc::me_vel_gs(1, 0, 0, 0, 5, 0, 0, 3))),
        fr("a1.p.even", enc::es_frame(17, 5, A1, enc::me_pos_latlon(11, 10000, false, 35.2, -80.2))),
        fr("a1.p.odd", enc::es_frame(17, 5, A1, enc::me_pos_latlon(11, 10000, true, 35.2, -80.2))),
        Ev::Wait(1),
        Ev::Prune(t),
    ];
    // "never expire": the largest threshold
    v.push(Ev::Prune(u64::MAX));
    if t > 0 {
        v.push(Ev::Wait(ns * 4 / 10));
        v.push(Ev::Wait(ns * 6 / 10));
        v.push(Ev::Wait(ns - 1));
        v.push(Ev::Wait(ns));
    }
    v
}

