//! C07: airborne velocity fields and derived track / ground speed / vertical rate.

use adsb_deku::adsb::ME;
use adsb_deku::{Frame, DF};
use rayon::prelude::*;
use serde_json::json;

use crate::bits::{hex, set_bits};
use crate::common::{guarded, Run, Tier};
use crate::e1::{all_leaves, e1_coverage, field_check_owned, run_units_tagged, Case, LeafSpec, Local};
use crate::refdec::RefObs;

/// Reference derived velocity from the raw reference fields; None = "no derived velocity".
pub fn ref_derived(r: &RefObs) -> Option<(f64, f64, i64)> {
    let st = r.raw("me.vel.st");
    if st != 1 && st != 2 {
        return None;
    }
    let (ev, nv, vr) = (r.raw("me.vel.ew_vel"), r.raw("me.vel.ns_vel"), r.raw("me.vel.vrate_value"));
    if ev == 0 || nv == 0 || vr == 0 {
        return None;
    }
    // integer components first (no signed zero)
    let mult: i64 = if st == 2 { 4 } else { 1 };
    let east_i = (ev as i64 - 1) * mult * if r.raw("me.vel.ew_sign") == 1 { -1 } else { 1 };
    let north_i = (nv as i64 - 1) * mult * if r.raw("me.vel.ns_sign") == 1 { -1 } else { 1 };
    let (east, north) = (east_i as f64, north_i as f64);
    let speed = east.hypot(north);
    let mut track = east.atan2(north).to_degrees();
    if track < 0.0 {
        track += 360.0;
    }
    let rate = (vr as i64 - 1) * 64 * if r.raw("me.vel.vrate_sign") == 1 { -1 } else { 1 };
    Some((track, speed, rate))
}

fn velocity_of(frame: &Frame) -> Option<&adsb_deku::adsb::AirborneVelocity> {
    match &frame.df {
        DF::ADSB(a) => match &a.me {
            ME::AirborneVelocity(v) => Some(v),
            _ => None,
        },
        DF::TisB { cf, .. } => match &cf.me {
            ME::AirborneVelocity(v) => Some(v),
            _ => None,
        },
        _ => None,
    }
}

fn check(bytes: &[u8], owners: (u8, u8), base_ok: bool, loc: &mut Local) {
    let Some((r, frame)) = field_check_owned(bytes, owners, base_ok, &[7], "velocity-fields", loc) else { return };
    let leaf = r.layout.leaf.clone();
    let Some(v) = velocity_of(&frame) else {
        loc.viol("velocity-derived", format!("{leaf}:variant"), hex(bytes), "AirborneVelocity".into(), "other ME variant".into());
        return;
    };
    loc.inc("derived_checks");
    let vv = v.clone();
    let got = match guarded(move || vv.calculate()) {
        Ok(g) => g,
        Err(p) => {
            loc.viol("velocity-derived", format!("{leaf}:panic"), hex(bytes), "no panic".into(), p);
            return;
        }
    };
    let want = ref_derived(&r);
    match (want, got) {
        (None, None) => {
            loc.outcomes.insert(1);
        }
        (Some((t, s, rt)), Some((gt, gs, grt))) => {
            let gt64 = f64::from(gt);
            let dt = (gt64 - t).abs();
            let ok_track = (dt < 2e-3 || (360.0 - dt).abs() < 2e-3) && (0.0..360.0).contains(&gt64);
            let ok_speed = (gs - s).abs() <= 1e-9 * (1.0 + s);
            let ok_rate = i64::from(grt) == rt;
            if !(ok_track && ok_speed && ok_rate) {
                loc.viol(
                    "velocity-derived",
                    format!("{leaf}:derived"),
                    hex(bytes),
                    format!("track={t:.4} speed={s:.6} rate={rt}"),
                    format!("track={gt:.4} speed={gs:.6} rate={grt}"),
                );
            } else {
                loc.outcomes.insert((gt.to_bits() as u64) << 20 ^ (grt as u64));
            }
        }
        (None, Some(g)) => loc.viol(
            "velocity-derived",
            format!("{leaf}:derived-from-no-information"),
            hex(bytes),
            "None".into(),
            format!("Some(track={:.4} speed={:.6} rate={})", g.0, g.1, g.2),
        ),
        (Some(w), None) => loc.viol(
            "velocity-derived",
            format!("{leaf}:derived-missing"),
            hex(bytes),
            format!("Some(track={:.4} speed={:.6} rate={})", w.0, w.1, w.2),
            "None".into(),
        ),
    }
}

pub fn run(tier: Tier) -> i32 {
    let run = Run::new("C07", tier);
    let leaves: Vec<LeafSpec> = all_leaves().into_iter().filter(|l| l.name.contains("/TC19/")).collect();
    let st = run_units_tagged(&run, &leaves, true, true, |c: &Case, base_ok: bool, loc: &mut Local| check(&c.bytes, c.owners, base_ok, loc));

    // joint sweep of (dir, vel, dir, vel) for the ground-speed subtypes, all vertical-rate codes
    let vels: Vec<u64> = if tier.thorough() {
        (0..1024).collect()
    } else {
        let mut v: Vec<u64> = vec![0, 1, 2, 3, 4, 5, 511, 512, 513, 1020, 1021, 1022, 1023];
        let mut x = 7;
        while x < 1024 {
            v.push(x);
            x += 31;
        }
        v.sort();
        v.dedup();
        v
    };
    let jobs: Vec<(u64, u64, u64)> = [17u64, 18]
        .iter()
        .flat_map(|df| [1u64, 2].into_iter().flat_map(move |stv| (0u64..4).map(move |signs| (*df, stv, signs))))
        .collect();
    let locs: Vec<Local> = jobs
        .par_iter()
        .map(|(df, stv, signs)| {
            let mut loc = Local::default();
            if *df == 18 && tier == Tier::Quick && *signs != 1 {
                return loc;
            }
            let mut b = vec![0u8; 14];
            set_bits(&mut b, 1, 5, *df);
            set_bits(&mut b, 6, 3, 5);
            set_bits(&mut b, 9, 24, 0xabcdef);
            set_bits(&mut b, 33, 5, 19);
            set_bits(&mut b, 38, 3, *stv);
            set_bits(&mut b, 32 + 14, 1, signs >> 1);
            set_bits(&mut b, 32 + 25, 1, signs & 1);
            set_bits(&mut b, 32 + 38, 9, 11); // rate (11-1)*64 = 640
            for ev in &vels {
                for nv in &vels {
                    set_bits(&mut b, 32 + 15, 10, *ev);
                    set_bits(&mut b, 32 + 26, 10, *nv);
                    loc.inc("joint_velocity_cases");
                    check(&b, (7, 7), true, &mut loc);
                }
            }
            // all 2^11 (src, sign, rate) codes x boundary velocities
            for code in 0u64..2048 {
                for (ev, nv) in [(1u64, 1u64), (0, 5), (5, 0), (2, 1023), (1023, 1023)] {
                    set_bits(&mut b, 32 + 15, 10, ev);
                    set_bits(&mut b, 32 + 26, 10, nv);
                    set_bits(&mut b, 32 + 36, 11, code);
                    loc.inc("rate_cases");
                    check(&b, (7, 7), true, &mut loc);
                }
            }
            loc
        })
        .collect();
    for loc in locs {
        run.add("extra_cases", loc.counts.get("decodes").copied().unwrap_or(0));
        run.add("nontrivial_extra", loc.counts.get("accepted").copied().unwrap_or(0));
        let mut c = loc.counts.clone();
        c.remove("accepted");
        run.merge_counts(&c);
        run.merge_outcomes(&loc.outcomes);
        for v in loc.viols {
            run.violation(v);
        }
    }
    run.sample(json!({"joint": "DF17 TC19 ST1 signs=(0,1) ew_vel=513 ns_vel=2 rate=11", "expect": "east=512 north=-1 speed=hypot track=atan2 rate=640"}));
    let cov = e1_coverage(
        &run,
        &st,
        "TC19 leaves (8 subtypes x DF17/18) x contexts: bit-walk, every value of every field (NACv, directions, velocities, heading, airspeed, vertical rate, difference), boundary pairs; joint sweep of (dir, vel, dir, vel) for subtypes 1 and 2 (thorough: all 2^22; quick: boundary + stride 31) and all 2^11 vertical-rate codes; fields vs bit slices and calculate() vs reference arithmetic in f64",
        true,
    );
    run.finish(
        "exploration",
        cov,
        vec![
            "derived values per the statement: components (raw-1) kt, x4 for subtype 2, sign bit = west/south; track = atan2(east, north) in [0,360) compared with 2e-3 deg tolerance (f32 result); speed relative 1e-9; rate exact".into(),
            "NACv = ME bits 11-13; the meaning of the vertical-rate source bit is not judged, only its value".into(),
        ],
    )
}
