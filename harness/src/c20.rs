//! C20: build configurations agree (std+serde in-process, std-only and alloc-only through the
//! configuration harness binaries); serde round trips of every decoded frame and tracker state.

use std::process::Command;

use adsb_deku::Frame;
use rayon::prelude::*;
use rsadsb_common::Airplanes;
use serde_json::json;

use crate::alpha::Ev;
use crate::bits::hex;
use crate::common::{verif_root, Run, Tier, Violation};
use crate::digest;
use crate::gen::{all_leaves, contexts, unit_cases};
use crate::vclock;

fn read_hashes(path: &std::path::Path) -> Option<Vec<u64>> {
    let b = std::fs::read(path).ok()?;
    Some(b.chunks_exact(8).map(|c| u64::from_le_bytes(c.try_into().unwrap())).collect())
}

fn show(bin: &std::path::Path, tier: Tier, i: usize) -> String {
    Command::new(bin)
        .args(["show", tier.name(), &i.to_string()])
        .output()
        .map(|o| String::from_utf8_lossy(&o.stdout).to_string())
        .unwrap_or_else(|e| format!("cannot run {}: {e}", bin.display()))
}

fn first_diff_line(a: &str, b: &str) -> (String, String) {
    for (x, y) in a.lines().zip(b.lines()) {
        if x != y {
            return (x.chars().take(400).collect(), y.chars().take(400).collect());
        }
    }
    (format!("{} lines", a.lines().count()), format!("{} lines", b.lines().count()))
}

fn roundtrip_frame(bytes: &[u8]) -> Result<bool, String> {
    let Ok(f) = Frame::from_bytes(bytes) else { return Ok(false) };
    let dbg = format!("{f:?}");
    let js = serde_json::to_string(&f).map_err(|e| format!("json serialize: {e}"))?;
    let back: Frame = serde_json::from_str(&js).map_err(|e| format!("json deserialize: {e} from {js}"))?;
    if format!("{back:?}") != dbg {
        return Err(format!("json: {dbg} became {back:?}"));
    }
    let js2 = serde_json::to_string(&back).map_err(|e| format!("json re-serialize: {e}"))?;
    if js2 != js {
        return Err(format!("json not stable: {js} vs {js2}"));
    }
    let mut cb = vec![];
    ciborium::into_writer(&f, &mut cb).map_err(|e| format!("cbor serialize: {e}"))?;
    let back: Frame = ciborium::from_reader(cb.as_slice()).map_err(|e| format!("cbor deserialize: {e}"))?;
    if format!("{back:?}") != dbg {
        return Err(format!("cbor: {dbg} became {back:?}"));
    }
    let mut cb2 = vec![];
    ciborium::into_writer(&back, &mut cb2).map_err(|e| format!("cbor re-serialize: {e}"))?;
    if cb2 != cb {
        return Err("cbor not stable".into());
    }
    Ok(true)
}

fn roundtrip_tracker(p: &Airplanes) -> Result<(), String> {
    let dbg = format!("{p:?}");
    let js = serde_json::to_string(p).map_err(|e| format!("json serialize: {e}"))?;
    let back: Airplanes = serde_json::from_str(&js).map_err(|e| format!("json deserialize: {e}"))?;
    if format!("{back:?}") != dbg {
        let (a, b) = first_diff_line(&dbg.replace(", ", ",\n"), &format!("{back:?}").replace(", ", ",\n"));
        return Err(format!("json: `{a}` became `{b}`"));
    }
    if serde_json::to_string(&back).map_err(|e| e.to_string())? != js {
        return Err("json not stable".into());
    }
    let mut cb = vec![];
    ciborium::into_writer(p, &mut cb).map_err(|e| format!("cbor serialize: {e}"))?;
    let back: Airplanes = ciborium::from_reader(cb.as_slice()).map_err(|e| format!("cbor deserialize: {e}"))?;
    if format!("{back:?}") != dbg {
        return Err("cbor: state changed".into());
    }
    let mut cb2 = vec![];
    ciborium::into_writer(&back, &mut cb2).map_err(|e| e.to_string())?;
    if cb2 != cb {
        return Err("cbor not stable".into());
    }
    Ok(())
}

pub fn run(tier: Tier) -> i32 {
    let run = Run::new("C20", tier);
    let root = verif_root();
    let tdir = std::env::var("VERIF_TARGET").map(std::path::PathBuf::from).unwrap_or_else(|_| std::path::PathBuf::from("/verif/target"));
    // ---- (1) three record streams
    let (sections, _) = digest::run(tier, None);
    let mine: Vec<u64> = sections.iter().flat_map(|s| s.hashes.iter().copied()).collect();
    for s in &sections {
        run.add(&format!("records_{}", s.name), s.hashes.len() as u64);
    }
    let mut compared = 0u64;
    for cfg in ["cfg-std", "cfg-alloc"] {
        let bin = tdir.join(cfg).join("release/vcfg");
        let out = tdir.join(format!("digest-{cfg}-{}.bin", tier.name()));
        let _ = std::fs::remove_file(&out);
        let st = Command::new(&bin).args(["digest", tier.name(), out.to_str().unwrap()]).output();
        match st {
            Ok(o) if o.status.success() => {}
            other => {
                println!("MACHINERY: cannot run {} ({other:?}); run bin/vcheck setup", bin.display());
                return 2;
            }
        }
        let Some(theirs) = read_hashes(&out) else {
            println!("MACHINERY: digest file {} missing", out.display());
            return 2;
        };
        if theirs.len() != mine.len() {
            println!("MACHINERY: record counts differ ({} vs {}): the case list must be identical", theirs.len(), mine.len());
            return 2;
        }
        let mut reported = 0;
        for (i, (a, b)) in mine.iter().zip(&theirs).enumerate() {
            compared += 1;
            if a != b {
                reported += 1;
                if reported > 40 {
                    continue;
                }
                let (_, shown) = digest::run_one(tier, i);
                let mine_text = shown.unwrap_or_default();
                let their_text = show(&bin, tier, i);
                let (x, y) = first_diff_line(&mine_text, &their_text);
                let section = {
                    let mut acc = 0;
                    let mut name = "?".to_string();
                    for s in &sections {
                        if i < acc + s.hashes.len() {
                            name = s.name.clone();
                            break;
                        }
                        acc += s.hashes.len();
                    }
                    name
                };
                run.violation(Violation {
                    oracle: "configurations-agree".into(),
                    class: format!("std+serde-vs-{cfg}:{section}"),
                    input: format!("record {i}: {}", mine_text.lines().next().unwrap_or("").chars().take(300).collect::<String>()),
                    expected: format!("std+serde: {x}"),
                    observed: format!("{cfg}: {y}"),
                });
            }
        }
    }
    run.add("records_compared", compared);

    // ---- (2) serde round trips: every decoded frame of the frame section, tracker states of the histories
    let leaves = all_leaves();
    let mut units = vec![];
    for (li, l) in leaves.iter().enumerate() {
        for ci in 0..contexts(l.nbits / 8, tier, 0).len() {
            units.push((li, ci));
        }
    }
    let res: Vec<(u64, Vec<(String, String)>)> = units
        .par_iter()
        .map(|(li, ci)| {
            let l = &leaves[*li];
            let ctx = &contexts(l.nbits / 8, tier, 0)[*ci].1;
            let mut n = 0;
            let mut bad = vec![];
            for c in unit_cases(l, ctx, tier, true, false) {
                match roundtrip_frame(&c) {
                    Ok(true) => n += 1,
                    Ok(false) => {}
                    Err(e) => {
                        if bad.len() < 3 {
                            bad.push((hex(&c), e));
                        }
                    }
                }
            }
            (n, bad)
        })
        .collect();
    let mut frames_rt = 0;
    for (n, bad) in res {
        frames_rt += n;
        for (input, e) in bad {
            run.violation(Violation {
                oracle: "serde-round-trip".into(),
                class: "frame-round-trip".into(),
                input,
                expected: "deserialize(serialize(frame)) == frame, stable bytes".into(),
                observed: e.chars().take(400).collect(),
            });
        }
    }
    run.add("frame_round_trips", frames_rt);
    // tracker states: all histories of the digest list
    let hs = digest::history_list(tier);
    let mut tr = 0u64;
    for (alpha, rx, range, depth) in hs {
        let n = digest::history_count(alpha.len(), depth);
        let bad: Vec<(String, String)> = (0..n)
            .into_par_iter()
            .filter_map(|i| {
                let idx = digest::history_indices(alpha.len(), depth, i);
                let mut planes = Airplanes::new();
                let mut now = 0u64;
                for j in &idx {
                    if let Ev::Frame { bytes, .. } = &alpha[*j] {
                        now += 1_000_000_000;
                        vclock::set_now(now);
                        if let Ok(f) = Frame::from_bytes(bytes) {
                            planes.action(f, rx, range);
                        }
                    }
                }
                vclock::clear();
                roundtrip_tracker(&planes).err().map(|e| (idx.iter().map(|j| alpha[*j].name()).collect::<Vec<_>>().join(" ; "), e))
            })
            .collect();
        tr += n as u64;
        for (input, e) in bad.into_iter().take(5) {
            run.violation(Violation {
                oracle: "serde-round-trip".into(),
                class: "tracker-round-trip".into(),
                input,
                expected: "deserialize(serialize(state)) == state, stable bytes".into(),
                observed: e.chars().take(400).collect(),
            });
        }
    }
    // address alphabet: the map is keyed by the address's text form, so every boundary address must survive
    let mut addrs: Vec<u32> = vec![0, 1, 0xa, 0x10, 0x0a0000, 0x100000, 0xffffff, 0x00ffff, 0xff0000, 0x0000ff, 0xabcdef, 0x000e00, 0x0e0000, 0x123456];
    for i in 0..24 {
        addrs.push(1 << i);
    }
    for (k, a) in addrs.iter().enumerate() {
        let mut planes = Airplanes::new();
        vclock::set_now(1_000_000_000);
        for b in [
            crate::enc::es_frame(17, 5, *a, crate::enc::me_ident(4, 0, "ADDR")),
            crate::enc::es_frame(17, 5, *a, crate::enc::me_pos_latlon(11, 10000, false, 35.2, -80.2)),
            crate::enc::es_frame(17, 5, *a, crate::enc::me_pos_latlon(11, 10000, true, 35.2, -80.2)),
            crate::enc::es_frame(17, 5, addrs[(k + 1) % addrs.len()], crate::enc::me_vel_kt(10, 20, 64)),
        ] {
            if let Ok(f) = Frame::from_bytes(&b) {
                planes.action(f, (35.0, -80.0), 500.0);
            }
        }
        vclock::clear();
        tr += 1;
        if let Err(e) = roundtrip_tracker(&planes) {
            run.violation(Violation {
                oracle: "serde-round-trip".into(),
                class: "tracker-round-trip-address".into(),
                input: format!("tracker with aircraft {a:06x} and {:06x}", addrs[(k + 1) % addrs.len()]),
                expected: "deserialize(serialize(state)) == state, stable bytes".into(),
                observed: e.chars().take(400).collect(),
            });
        }
    }
    run.add("tracker_round_trips", tr);
    run.sample(json!({"record": digest::frame_record(&crate::bits::unhex("8d40621d58c382d690c8ac2863a7")).lines().next()}));
    run.sample(json!({"history": "a1.p1.even ; a1.p1.odd ; a1.p1.even", "compared": "canonical tracker state without std-only timestamps, virtual clock +1 s per event in std builds"}));
    let _ = root;
    let cov = json!({
        "evaluations": compared + frames_rt + tr,
        "distinct_nontrivial": mine.len() as u64,
        "rule": "fixed case list (E1 quick lattice of every leaf incl. truncations, strided CPR pairs in both orders, all tracker histories up to depth 3/4 over the C12/C13/C14 alphabets) rendered to records by the same source compiled against {std+serde, std, alloc-only}; record-by-record equality; serde_json(float_roundtrip) and CBOR round trip of every decoded frame and every history's tracker state",
        "exhaustive": true,
        "configurations": ["std+serde (in-process)", "std", "alloc"],
    });
    run.finish(
        "exploration",
        cov,
        vec![
            "std-only state (timestamps, and the Debug text embedding them) is excluded from the comparison".into(),
            "the alloc-only configuration is exercised through from_bytes (deku's no_std_io2 reader); reader schedules (C19) are explored in the std build only".into(),
            "serde_json is used with float_roundtrip (its default float parser is lossy by 1 ulp, a property of the format library, not of the subject)".into(),
        ],
    )
}
