//! Virtual wall clock: this binary defines `clock_gettime`, which the static linker binds std's
//! `SystemTime::now()` to. For CLOCK_REALTIME it returns a thread-local virtual time when one is set;
//! every other clock (and REALTIME when unset) is the raw syscall.

use std::cell::Cell;

thread_local! {
    static VNOW: Cell<u64> = const { Cell::new(0) }; // 0 = real time
}

pub const EPOCH_NS: u64 = 1_700_000_000 * 1_000_000_000;

pub fn set_now(ns_since_base: u64) {
    VNOW.with(|c| c.set(EPOCH_NS + ns_since_base));
}

pub fn clear() {
    VNOW.with(|c| c.set(0));
}

/// # Safety
/// libc contract of clock_gettime: `ts` points to a writable timespec.
#[no_mangle]
pub unsafe extern "C" fn clock_gettime(clk: libc::clockid_t, ts: *mut libc::timespec) -> libc::c_int {
    if clk == libc::CLOCK_REALTIME {
        let v = VNOW.try_with(|c| c.get()).unwrap_or(0);
        if v != 0 {
            (*ts).tv_sec = (v / 1_000_000_000) as libc::time_t;
            (*ts).tv_nsec = (v % 1_000_000_000) as libc::c_long;
            return 0;
        }
    }
    libc::syscall(libc::SYS_clock_gettime, clk, ts) as libc::c_int
}

/// Self-test recorded in the evidence: SystemTime::now() follows the virtual clock exactly.
pub fn self_test() -> bool {
    use std::time::{Duration, SystemTime};
    set_now(5_000_000_000);
    let a = SystemTime::now();
    set_now(15_000_000_001);
    let b = SystemTime::now();
    let ok1 = b.duration_since(a).ok() == Some(Duration::new(10, 1));
    set_now(15_000_000_001);
    let ok2 = a.elapsed().ok() == Some(Duration::new(10, 1));
    clear();
    let real = SystemTime::now().duration_since(SystemTime::UNIX_EPOCH).map(|d| d.as_secs()).unwrap_or(0);
    ok1 && ok2 && real > 1_600_000_000 && real != 1_700_000_015
}
