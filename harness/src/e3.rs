//! E3 / C19: environment-schedule explorer for `Frame::from_reader`. The reader's answers (full,
//! short, transient Interrupted) are decided by a script; exploration is deviation-bounded DFS.

use std::collections::{BTreeMap, BTreeSet};
use std::io::{Error, ErrorKind, Read, Seek, SeekFrom};

use adsb_deku::Frame;
use rayon::prelude::*;
use serde_json::json;

use crate::bits::{hex, set_bits};
use crate::common::{guarded, last_panic_loc, Run, Tier, Violation};
use crate::e1::{all_leaves, contexts};

#[derive(Clone, Copy, Debug, PartialEq, Eq, PartialOrd, Ord, Hash)]
pub enum Ans {
    Full,
    /// give at most this many bytes (>= 1)
    Short(usize),
    Interrupted,
}

#[derive(Clone, Debug, PartialEq, Eq)]
pub enum Op {
    Read { requested: usize, pos: usize },
    Seek { to: i64 },
}

pub struct Scripted<'a> {
    data: &'a [u8],
    pos: usize,
    script: &'a [Ans],
    call: usize,
    pub ops: Vec<Op>,
    /// requested size of every read call, in order
    pub reads: Vec<usize>,
    budget: usize,
}

impl<'a> Scripted<'a> {
    pub fn new(data: &'a [u8], script: &'a [Ans]) -> Self {
        Scripted { data, pos: 0, script, call: 0, ops: vec![], reads: vec![], budget: 10_000 }
    }

    /// a reader that has already been read up to `pos` (the frame to decode starts there)
    pub fn new_at(data: &'a [u8], pos: usize, script: &'a [Ans]) -> Self {
        Scripted { data, pos, script, call: 0, ops: vec![], reads: vec![], budget: 10_000 }
    }
}

impl Read for Scripted<'_> {
    fn read(&mut self, buf: &mut [u8]) -> std::io::Result<usize> {
        if self.budget == 0 {
            return Err(Error::new(ErrorKind::Other, "call budget exhausted"));
        }
        self.budget -= 1;
        let i = self.call;
        self.call += 1;
        self.ops.push(Op::Read { requested: buf.len(), pos: self.pos });
        self.reads.push(buf.len());
        let ans = self.script.get(i).copied().unwrap_or(Ans::Full);
        if buf.is_empty() {
            return Ok(0);
        }
        let avail = self.data.len().saturating_sub(self.pos);
        let n = match ans {
            Ans::Interrupted => return Err(Error::new(ErrorKind::Interrupted, "transient")),
            Ans::Short(k) => k.max(1).min(buf.len()).min(avail),
            Ans::Full => buf.len().min(avail),
        };
        buf[..n].copy_from_slice(&self.data[self.pos..self.pos + n]);
        self.pos += n;
        Ok(n)
    }
}

impl Seek for Scripted<'_> {
    fn seek(&mut self, to: SeekFrom) -> std::io::Result<u64> {
        let np: i64 = match to {
            SeekFrom::Start(p) => p as i64,
            SeekFrom::Current(d) => self.pos as i64 + d,
            SeekFrom::End(d) => self.data.len() as i64 + d,
        };
        self.ops.push(Op::Seek { to: np });
        if np < 0 {
            return Err(Error::new(ErrorKind::InvalidInput, "seek before start"));
        }
        self.pos = np as usize;
        Ok(np as u64)
    }
}

type Outcome = Result<(String, u32), String>;

fn outcome(r: Result<Frame, deku::DekuError>) -> Outcome {
    match r {
        Ok(f) => Ok((format!("{:?}", f.df), f.crc)),
        Err(e) => Err(format!("{e:?}")),
    }
}

/// Decode through the scripted reader; returns (outcome, requested sizes of the read calls, op log).
fn run_script(bytes: &[u8], script: &[Ans]) -> Result<(Outcome, Vec<usize>, Vec<Op>), String> {
    run_script_at(bytes, 0, script)
}

/// `stream[offset..]` is the frame; the reader starts at `offset`
fn run_script_at(stream: &[u8], offset: usize, script: &[Ans]) -> Result<(Outcome, Vec<usize>, Vec<Op>), String> {
    let b = stream.to_vec();
    let sc = script.to_vec();
    guarded(move || {
        let mut r = Scripted::new_at(&b, offset, &sc);
        let res = Frame::from_reader(&mut r);
        (outcome(res), r.reads.clone(), r.ops.clone())
    })
    .map_err(|p| format!("{p} @ {}", last_panic_loc()))
}

fn script_str(s: &[Ans]) -> String {
    s.iter()
        .map(|a| match a {
            Ans::Full => "F".to_string(),
            Ans::Short(k) => format!("S{k}"),
            Ans::Interrupted => "I".to_string(),
        })
        .collect::<Vec<_>>()
        .join(",")
}

pub fn parse_script(s: &str) -> Vec<Ans> {
    s.split(',')
        .filter(|t| !t.is_empty())
        .map(|t| match t.as_bytes()[0] {
            b'I' => Ans::Interrupted,
            b'S' => Ans::Short(t[1..].parse().unwrap_or(1)),
            _ => Ans::Full,
        })
        .collect()
}

struct Explorer<'a> {
    bytes: &'a [u8],
    want: Outcome,
    bound: usize,
    schedules: u64,
    max_reads: usize,
    viols: Vec<Violation>,
    label: String,
    distinct_oplogs: BTreeSet<u64>,
}

impl Explorer<'_> {
    fn check(&mut self, script: &[Ans]) -> Option<Vec<usize>> {
        self.schedules += 1;
        match run_script(self.bytes, script) {
            Ok((got, reads, ops)) => {
                self.max_reads = self.max_reads.max(reads.len());
                self.distinct_oplogs.insert(crate::bits::fnv(format!("{ops:?}").as_bytes()));
                if got != self.want && self.viols.len() < 50 {
                    let kind = classify(script, &ops);
                    self.viols.push(Violation {
                        oracle: "reader-independence".into(),
                        class: format!("{}:{kind}", self.label),
                        input: format!("frame={} script={}", hex(self.bytes), script_str(script)),
                        expected: format!("{:?}", self.want).chars().take(200).collect(),
                        observed: format!("{got:?}").chars().take(200).collect(),
                    });
                }
                Some(reads)
            }
            Err(p) => {
                if self.viols.len() < 50 {
                    self.viols.push(Violation {
                        oracle: "reader-independence".into(),
                        class: format!("{}:panic", self.label),
                        input: format!("frame={} script={}", hex(self.bytes), script_str(script)),
                        expected: format!("{:?}", self.want).chars().take(200).collect(),
                        observed: format!("panic: {p}"),
                    });
                }
                None
            }
        }
    }

    /// deviation-bounded DFS: `prefix` fixes the answers of the first calls, later calls answer Full
    fn explore(&mut self, prefix: Vec<Ans>, deviations: usize, alts: &dyn Fn(usize) -> Vec<Ans>) {
        let Some(reads) = self.check(&prefix) else { return };
        if deviations >= self.bound {
            return;
        }
        for i in prefix.len()..reads.len() {
            for alt in alts(reads[i]) {
                let mut p = prefix.clone();
                p.resize(i, Ans::Full);
                p.push(alt);
                // replaying the prefix must reproduce the same call points up to i
                self.explore(p, deviations + 1, alts);
            }
        }
    }
}

fn classify(script: &[Ans], ops: &[Op]) -> &'static str {
    // is there an Interrupted answer on the read directly following a seek?
    let mut read_idx = 0;
    let mut after_seek = false;
    for op in ops {
        match op {
            Op::Seek { .. } => after_seek = true,
            Op::Read { .. } => {
                if script.get(read_idx) == Some(&Ans::Interrupted) && after_seek {
                    return "interrupted@post-seek";
                }
                if script.get(read_idx) != Some(&Ans::Interrupted) {
                    after_seek = false;
                }
                read_idx += 1;
            }
        }
    }
    if script.iter().any(|a| matches!(a, Ans::Short(_))) {
        "short-read"
    } else {
        "interrupted"
    }
}

/// one representative frame per distinct read/seek pattern
fn subjects(tier: Tier, seed: u64) -> Vec<(String, Vec<u8>)> {
    let mut by_sig: BTreeMap<String, (String, Vec<u8>)> = BTreeMap::new();
    for l in all_leaves() {
        // every context: header values such as a reserved CA (0xaa.. gives CA = 2) have their own seek pattern
        for (cname, c) in contexts(l.nbits / 8, tier, seed).into_iter() {
            let mut b = c.clone();
            for (f, w, v) in &l.fixed {
                set_bits(&mut b, *f as usize, *w as usize, *v);
            }
            if let Ok((_, _, ops)) = run_script(&b, &[]) {
                let sig = format!("{ops:?}");
                by_sig.entry(sig).or_insert((format!("{}/{cname}", l.name), b));
            }
        }
    }
    let mut extra: Vec<(String, Vec<u8>)> = vec![];
    for (df, n) in [(11u64, 7usize), (17, 14), (24, 14), (31, 14)] {
        for ca in 1u64..4 {
            let mut b = vec![0x5au8; n];
            set_bits(&mut b, 1, 5, df);
            set_bits(&mut b, 6, 3, ca);
            extra.push((format!("DF{df}/CA{ca}"), b));
        }
    }
    for (df, n) in [(4u64, 7usize), (5, 7), (20, 14), (21, 14)] {
        for dr in [2u64, 31] {
            let mut b = vec![0x5au8; n];
            set_bits(&mut b, 1, 5, df);
            set_bits(&mut b, 9, 5, dr);
            extra.push((format!("DF{df}/DR{dr}"), b));
        }
    }
    for (name, b) in extra {
        if let Ok((_, _, ops)) = run_script(&b, &[]) {
            by_sig.entry(format!("{name}{ops:?}")).or_insert((name, b));
        }
    }
    by_sig.into_values().collect()
}

pub fn run(tier: Tier) -> i32 {
    let run = Run::new("C19", tier);
    let subj = subjects(tier, run.seed);
    run.add("read_seek_patterns", subj.len() as u64);
    let mut all: Vec<(String, Vec<u8>)> = vec![];
    for (n, b) in &subj {
        all.push((n.clone(), b.clone()));
        let mut ext = b.clone();
        ext.extend_from_slice(&[0xaa, 0x00, 0xff]);
        all.push((format!("{n}+tail"), ext));
        // truncated buffers: the outcome (an error, or whatever from_bytes says) must be the same too
        all.push((format!("{n}-cut"), b[..b.len() - 1].to_vec()));
        for k in [2usize, 3, 4, 7, 11, 13] {
            if k < b.len() {
                all.push((format!("{n}-cut{k}"), b[..b.len() - k].to_vec()));
            }
        }
        // a tail longer than a second frame
        let mut ext2 = b.clone();
        ext2.extend_from_slice(&[0x8d, 0x40, 0x62, 0x1d, 0x58, 0xc3, 0x82, 0xd6, 0x90, 0xc8, 0xac, 0x28, 0x63, 0xa7, 0x01]);
        all.push((format!("{n}+frame"), ext2));
    }
    let results: Vec<(u64, usize, Vec<Violation>, usize)> = all
        .par_iter()
        .map(|(name, bytes)| {
            let b2 = bytes.clone();
            let want = match guarded(move || outcome(Frame::from_bytes(&b2))) {
                Ok(w) => w,
                Err(p) => Err(format!("panic {p}")),
            };
            let mut ex = Explorer {
                bytes,
                want,
                bound: 0,
                schedules: 0,
                max_reads: 0,
                viols: vec![],
                label: name.split('/').next().unwrap_or("?").to_string(),
                distinct_oplogs: BTreeSet::new(),
            };
            // (i) all subsets of read calls preceded by one Interrupted (quick: up to 2 interrupts)
            ex.bound = if tier.thorough() { 64 } else { 2 };
            let only_int = |_req: usize| vec![Ans::Interrupted];
            if tier.thorough() {
                // every subset: each original call either interrupted once first or not. Enumerate by
                // bitmask over the benign call count R (R <= 20).
                let r = run_script(bytes, &[]).map(|x| x.1.len()).unwrap_or(0).min(20);
                for mask in 0u32..(1u32 << r) {
                    let mut script = vec![];
                    for i in 0..r {
                        if (mask >> i) & 1 == 1 {
                            script.push(Ans::Interrupted);
                        }
                        script.push(Ans::Full);
                    }
                    ex.check(&script);
                }
            } else {
                ex.explore(vec![], 0, &only_int);
            }
            // (ii) all-1-byte schedule; every split size of every multi-byte request
            ex.check(&vec![Ans::Short(1); 400]);
            if let Ok((_, reads, _)) = run_script(bytes, &[]) {
                for (i, req) in reads.iter().enumerate() {
                    for k in 1..*req {
                        let mut s = vec![Ans::Full; i];
                        s.push(Ans::Short(k));
                        ex.check(&s);
                    }
                }
            }
            // (iii) mixed deviations: Short(1), Short(req-1), Interrupted, Interrupted x2
            ex.bound = if tier.thorough() { 3 } else { 2 };
            let mixed = |req: usize| {
                let mut v = vec![Ans::Interrupted];
                if req > 1 {
                    v.push(Ans::Short(1));
                    if req > 2 {
                        v.push(Ans::Short(req - 1));
                    }
                }
                v
            };
            ex.explore(vec![], 0, &mixed);
            // one byte per call throughout, plus a transient Interrupted before every single call and before every
            // pair of calls (fragments and errors sharing one retry budget)
            if let Ok((_, reads1, _)) = run_script(bytes, &vec![Ans::Short(1); 400]) {
                let r1 = reads1.len().min(48);
                let mk = |ints: &[usize]| {
                    let mut s = vec![];
                    for i in 0..r1 + 2 {
                        if ints.contains(&i) {
                            s.push(Ans::Interrupted);
                        }
                        s.push(Ans::Short(1));
                    }
                    s.extend(std::iter::repeat(Ans::Short(1)).take(300));
                    s
                };
                for i in 0..r1 {
                    ex.check(&mk(&[i]));
                    if tier.thorough() || i % 3 == 0 {
                        for j in (i + 1)..r1 {
                            ex.check(&mk(&[i, j]));
                        }
                    }
                }
            }
            // bursts of k consecutive Interrupted at every call
            if let Ok((_, reads, _)) = run_script(bytes, &[]) {
                for i in 0..reads.len() {
                    for k in [3usize, 8, 14, 15, 40] {
                        let mut s = vec![Ans::Full; i];
                        s.extend(std::iter::repeat(Ans::Interrupted).take(k));
                        ex.check(&s);
                    }
                }
            }
            // Interrupted twice in a row at every call
            if let Ok((_, reads, _)) = run_script(bytes, &[]) {
                for i in 0..reads.len() {
                    let mut s = vec![Ans::Full; i];
                    s.push(Ans::Interrupted);
                    s.push(Ans::Interrupted);
                    ex.check(&s);
                }
            }
            (ex.schedules, ex.max_reads, ex.viols, ex.distinct_oplogs.len())
        })
        .collect();
    let mut schedules = 0;
    let mut distinct = 0;
    for (s, _mr, v, d) in results {
        schedules += s;
        distinct += d as u64;
        for x in v {
            run.violation(x);
        }
    }
    run.add("schedules", schedules);

    // purity: ordered triples (a, b, a) and (a, a, b) through both entry points
    let reps: Vec<&Vec<u8>> = subj.iter().map(|(_, b)| b).collect();
    let mut triples = 0u64;
    let base: Vec<Outcome> = reps.iter().map(|b| outcome(Frame::from_bytes(b))).collect();
    for (i, a) in reps.iter().enumerate() {
        for (j, b) in reps.iter().enumerate() {
            for order in 0..2 {
                let seq: [(&Vec<u8>, usize); 3] = if order == 0 { [(a, i), (b, j), (a, i)] } else { [(a, i), (a, i), (b, j)] };
                for (k, (x, xi)) in seq.iter().enumerate() {
                    let got = if (k + order) % 2 == 0 {
                        outcome(Frame::from_bytes(x))
                    } else {
                        outcome(Frame::from_reader(std::io::Cursor::new(x.as_slice())))
                    };
                    if got != base[*xi] {
                        run.violation(Violation {
                            oracle: "purity".into(),
                            class: "purity".into(),
                            input: format!("a={} b={} order={order} step={k}", hex(a), hex(b)),
                            expected: format!("{:?}", base[*xi]).chars().take(160).collect(),
                            observed: format!("{got:?}").chars().take(160).collect(),
                        });
                    }
                }
                triples += 1;
            }
        }
    }
    run.add("purity_triples", triples);

    // readers that are not at position 0: the frame follows other bytes in the same stream (a previous frame,
    // a header). Decoding must depend only on the bytes from the current position on.
    let prefixes: Vec<Vec<u8>> = vec![
        vec![0x42],
        crate::enc::es_frame(17, 5, 0x40621d, crate::enc::me_pos_latlon(11, 38000, false, 52.2572, 3.9194)),
        crate::enc::df11_frame(5, 0xabcdef, 0),
        vec![0xff; 16],
    ];
    let mut offset_cases = 0u64;
    for (name, frame) in &subj {
        let want = outcome(Frame::from_bytes(frame));
        for pre in &prefixes {
            let mut stream = pre.clone();
            stream.extend_from_slice(frame);
            let r0 = run_script_at(&stream, pre.len(), &[]).map(|x| x.1.len()).unwrap_or(0);
            let mut scripts: Vec<Vec<Ans>> = vec![vec![], vec![Ans::Short(1); 64]];
            for at in 0..r0 {
                let mut sc = vec![Ans::Full; at];
                sc.push(Ans::Interrupted);
                scripts.push(sc);
            }
            for sc in scripts {
                offset_cases += 1;
                match run_script_at(&stream, pre.len(), &sc) {
                    Ok((got, _, _)) if got == want => {}
                    Ok((got, _, _)) => run.violation(Violation {
                        oracle: "reader-independence".into(),
                        class: format!("{}:reader-at-offset", name.split('/').next().unwrap_or("?")),
                        input: format!("frame={} offset={} prefix={} script={}", hex(frame), pre.len(), hex(pre), script_str(&sc)),
                        expected: format!("{want:?}").chars().take(200).collect(),
                        observed: format!("{got:?}").chars().take(200).collect(),
                    }),
                    Err(p) => run.violation(Violation {
                        oracle: "reader-independence".into(),
                        class: "reader-at-offset:panic".into(),
                        input: format!("frame={} offset={} prefix={} script={}", hex(frame), pre.len(), hex(pre), script_str(&sc)),
                        expected: format!("{want:?}").chars().take(200).collect(),
                        observed: format!("panic: {p}"),
                    }),
                }
            }
        }
    }
    run.add("reader_at_offset_cases", offset_cases);
    run.sample(json!({"frame": hex(&subj[0].1), "script": "I,F,F,I,F", "meaning": "Interrupted before the 1st and 3rd original read call"}));
    run.sample(json!({"frame": hex(&subj[subj.len() / 2].1), "script": "S1,S1,S1,...", "meaning": "one byte per read call"}));
    let cov = json!({
        "evaluations": schedules + triples * 3 + offset_cases,
        "distinct_nontrivial": distinct,
        "rule": "per distinct read/seek pattern (one representative frame each, exact length, +3 trailing bytes, 1 byte short): all subsets of read calls preceded by a transient Interrupted (thorough; quick: <= 2), the all-1-byte schedule, every split size of every multi-byte request, all schedules with <= 2 (quick) / <= 3 (thorough) deviations from {Short(1), Short(k-1), Interrupted}, Interrupted twice at every call; purity: all ordered triples (a,b,a), (a,a,b). distinct = distinct (read, seek) operation logs observed",
        "exhaustive": true,
        "schedules": schedules,
        "read_seek_patterns": subj.len(),
    });
    run.finish(
        "fault_enumeration",
        cov,
        vec![
            "readers obey the Read/Seek contracts: a short read returns >= 1 byte, Interrupted consumes nothing, seeks do not fail".into(),
            "std build of deku (std::io::Read::read_exact / read_to_end retry Interrupted); the alloc-only reader is covered by C20's differential".into(),
        ],
    )
}

/// replay of one recorded (frame, script)
pub fn replay(input: &str) -> i32 {
    let mut frame = String::new();
    let mut script = String::new();
    for kv in input.split_whitespace() {
        if let Some(v) = kv.strip_prefix("frame=") {
            frame = v.to_string();
        }
        if let Some(v) = kv.strip_prefix("script=") {
            script = v.to_string();
        }
    }
    let bytes = crate::bits::unhex(&frame);
    let sc = parse_script(&script);
    let mut prefix = vec![];
    for kv in input.split_whitespace() {
        if let Some(v) = kv.strip_prefix("prefix=") {
            prefix = crate::bits::unhex(v);
        }
    }
    println!("from_bytes : {:?}", outcome(Frame::from_bytes(&bytes)));
    let mut stream = prefix.clone();
    stream.extend_from_slice(&bytes);
    match run_script_at(&stream, prefix.len(), &sc) {
        Ok((o, _reads, ops)) => {
            println!("from_reader: {o:?}");
            println!("operations : {ops:?}");
        }
        Err(p) => println!("from_reader: PANIC {p}"),
    }
    0
}
