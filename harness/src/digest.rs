//! Configuration digest (C20): one record per case of a fixed, deterministic case list — decoded
//! frames (Debug, Display, crc or the error), CPR pairings (raw f64 bits) and tracker histories
//! (canonical state without std-only timestamps). The same source is compiled into the std+serde
//! harness, a std-only and an alloc-only build; the record streams must be identical.
#![allow(dead_code)]

use adsb_deku::cpr::get_position;
use adsb_deku::{Altitude, CPRFormat, Frame};
use rayon::prelude::*;
use rsadsb_common::{Added, AirplaneCoor, Airplanes};

use crate::alpha::{alphabet_c12, alphabet_c13, alphabet_c14, Ev};
use crate::bits::{fnv, hex, set_bits};
use crate::gen::{all_leaves, contexts, unit_cases, Tier};
use crate::vclock;

fn guarded_text(f: impl FnOnce() -> String + std::panic::UnwindSafe) -> String {
    std::panic::catch_unwind(f).unwrap_or_else(|_| "PANIC".to_string())
}

pub fn frame_record(bytes: &[u8]) -> String {
    let b = bytes.to_vec();
    guarded_text(move || match Frame::from_bytes(&b) {
        Ok(f) => format!("frame {} OK crc={:06x}\n{:?}\n{}", hex(&b), f.crc, f.df, f),
        Err(e) => format!("frame {} ERR {e:?}", hex(&b)),
    })
}

fn alt(odd: bool, yz: u32, xz: u32) -> Altitude {
    Altitude { odd_flag: if odd { CPRFormat::Odd } else { CPRFormat::Even }, lat_cpr: yz, lon_cpr: xz, ..Altitude::default() }
}

pub fn cpr_record(a: (bool, u32, u32), b: (bool, u32, u32)) -> String {
    guarded_text(move || {
        let (x, y) = (alt(a.0, a.1, a.2), alt(b.0, b.1, b.2));
        match get_position((&x, &y)) {
            Some(p) => format!("cpr {a:?} {b:?} -> {:016x} {:016x} ({}, {})", p.latitude.to_bits(), p.longitude.to_bits(), p.latitude, p.longitude),
            None => format!("cpr {a:?} {b:?} -> None"),
        }
    })
}

fn coor_text(c: &AirplaneCoor) -> String {
    let slot = |a: &Option<Altitude>| match a {
        None => "-".to_string(),
        Some(a) => format!("{}:{}:{}:{:?}:{}:{}", a.tc, a.lat_cpr, a.lon_cpr, a.alt, a.t, a.odd_flag == CPRFormat::Odd),
    };
    format!(
        "[{} {}] pos={:?} dist={:?}",
        slot(&c.altitudes[0]),
        slot(&c.altitudes[1]),
        c.position.map(|p| (p.latitude.to_bits(), p.longitude.to_bits())),
        c.kilo_distance.map(f64::to_bits)
    )
}

/// canonical text of the tracker without std-only timestamps
pub fn tracker_text(p: &Airplanes) -> String {
    let mut s = String::new();
    for (k, st) in p.iter() {
        s += &format!(
            "{k} msgs={} cs={:?} hdg={:?} spd={:?} vs={:?} sq={:?} gnd={:?} coords={} track=",
            st.num_messages,
            st.callsign,
            st.heading.map(f32::to_bits),
            st.speed.map(f32::to_bits),
            st.vert_speed,
            st.squawk,
            st.on_ground,
            coor_text(&st.coords)
        );
        match &st.track {
            None => s += "None",
            Some(t) => {
                for c in t {
                    s += &coor_text(c);
                    s += ";";
                }
            }
        }
        let d = p.aircraft_details(*k);
        s += &format!(" details={:?}", d.map(|d| (d.position.latitude.to_bits(), d.altitude, d.kilo_distance.to_bits(), d.heading.map(f32::to_bits))));
        s += "\n";
    }
    s += &format!("all_position={:?}\n", p.all_position().iter().map(|(k, p)| (k.to_string(), p.latitude.to_bits())).collect::<Vec<_>>());
    // the Display text embeds Debug of std-only timestamps: keep only its line structure
    let text = p.to_string();
    s += &format!("display_lines={:?}", text.lines().map(|l| l.split(':').next().unwrap_or("").to_string()).collect::<Vec<_>>());
    s
}

pub fn history_record(events: &[&Ev], rx: (f64, f64), range: f64) -> String {
    // time moves between events (the normal condition in production); alloc-only builds have no clock, so the
    // record must be the same whether one second or a hundred pass between frames
    let a = history_record_step(events, rx, range, 1_000_000_000);
    let b = history_record_step(events, rx, range, 100_000_000_000);
    if a == b {
        a
    } else {
        format!("{a}\n--- differs with 100 s between events ---\n{b}")
    }
}

fn history_record_step(events: &[&Ev], rx: (f64, f64), range: f64, step_ns: u64) -> String {
    let evs: Vec<Ev> = events.iter().map(|e| (*e).clone()).collect();
    guarded_text(move || {
        let mut planes = Airplanes::new();
        let mut now = 0u64;
        let mut rx = rx;
        let mut log = String::from("history");
        for e in &evs {
            if let Ev::Rx(la, lo) = e {
                rx = (*la, *lo);
            }
            if let Ev::Frame { name, bytes } = e {
                now += step_ns;
                vclock::set_now(now);
                let added = match Frame::from_bytes(bytes) {
                    Ok(f) => planes.action(f, rx, range) == Added::Yes,
                    Err(_) => false,
                };
                log += &format!(" {name}:{added}");
            }
        }
        vclock::clear();
        format!("{log}\n{}", tracker_text(&planes))
    })
}

// ------------------------------------------------------------------ the fixed case list
pub struct Section {
    pub name: String,
    pub hashes: Vec<u64>,
}

fn frame_units(tier: Tier) -> Vec<(usize, usize)> {
    let leaves = all_leaves();
    let n7 = contexts(7, tier, 0).len();
    let mut u = vec![];
    for (li, _) in leaves.iter().enumerate() {
        for ci in 0..n7 {
            u.push((li, ci));
        }
    }
    u
}

fn frame_unit_cases(li: usize, ci: usize, tier: Tier) -> Vec<Vec<u8>> {
    let leaves = all_leaves();
    let l = &leaves[li];
    let ctx = &contexts(l.nbits / 8, tier, 0)[ci].1;
    let mut cases = unit_cases(l, ctx, tier, true, false);
    // truncated and over-long variants of the base frame
    let mut base = ctx.clone();
    for (f, w, v) in &l.fixed {
        set_bits(&mut base, *f as usize, *w as usize, *v);
    }
    for n in 0..base.len() {
        cases.push(base[..n].to_vec());
    }
    let mut long = base.clone();
    long.extend_from_slice(&[0x12, 0x34, 0x56]);
    cases.push(long);
    cases
}

fn cpr_cases(tier: Tier) -> Vec<((bool, u32, u32), (bool, u32, u32))> {
    let stride: usize = if tier.thorough() { 211 } else { 1021 };
    let mut v = vec![];
    let mut ye = 0usize;
    while ye < 131072 {
        let mut yo = (ye * 7) % stride;
        while yo < 131072 {
            let xe = ((ye * 131 + yo * 17) % 131072) as u32;
            let xo = ((ye * 37 + yo * 251) % 131072) as u32;
            v.push(((false, ye as u32, xe), (true, yo as u32, xo)));
            v.push(((true, yo as u32, xo), (false, ye as u32, xe)));
            yo += stride;
        }
        ye += stride;
    }
    v.push(((false, 1, 2), (false, 3, 4)));
    v.push(((true, 1, 2), (true, 3, 4)));
    // ties of the zone-index roundings: pairs whose rounding argument 59*y0 - 60*y1 (latitude index j) or
    // (NL-1)*x0 - NL*x1 (longitude index m) is exactly a half-integer, positive and negative - the inputs on which
    // floor(x + 0.5), round() and round-half-even differ (std and libm need not implement the same one)
    const HALF: i64 = 65536;
    const FULL: i64 = 131072;
    let inv = |a: i64, m: i64| (1..m).find(|x| (a * x) % m == 1).unwrap_or(1);
    let inv15 = inv(15, 32768);
    let ystep = if tier.thorough() { 4 } else { 64 };
    let mut ye = 0i64;
    while ye < FULL {
        // 60*yo = 59*ye - HALF (mod FULL), ye a multiple of 4  =>  15*yo = (59*ye - HALF)/4 (mod 32768)
        let rhs = ((59 * ye - HALF) / 4).rem_euclid(32768);
        let y0 = (rhs * inv15).rem_euclid(32768);
        for i in 0..4 {
            let yo = y0 + i * 32768;
            let xe = ((ye * 131 + yo * 17) % FULL) as u32;
            let xo = ((ye * 37 + yo * 251) % FULL) as u32;
            v.push(((false, ye as u32, xe), (true, yo as u32, xo)));
            v.push(((true, yo as u32, xo), (false, ye as u32, xe)));
        }
        ye += ystep;
    }
    for (lat, nl) in [(0.0004f64, 59i64), (53.3, 35), (86.9, 2), (-30.2, 51)] {
        let (ye, _) = crate::cprref::encode(lat, 0.0, false);
        let (yo, _) = crate::cprref::encode(lat, 0.0, true);
        let xstep = if tier.thorough() { 1 } else { 16 };
        let (inv_nl, inv_nl1) = (if nl % 2 == 1 { inv(nl, FULL) } else { 1 }, if nl % 2 == 0 { inv(nl - 1, FULL) } else { 1 });
        let mut x = 0i64;
        while x < FULL {
            // (nl-1)*xe - nl*xo = HALF (mod FULL): solve for the operand with the odd coefficient
            let (xe, xo) = if nl % 2 == 1 {
                let xe = x;
                (xe, (((nl - 1) * xe - HALF).rem_euclid(FULL) * inv_nl).rem_euclid(FULL))
            } else {
                let xo = x;
                (((nl * xo + HALF).rem_euclid(FULL) * inv_nl1).rem_euclid(FULL), xo)
            };
            v.push(((false, ye, xe as u32), (true, yo, xo as u32)));
            v.push(((true, yo, xo as u32), (false, ye, xe as u32)));
            x += xstep;
        }
    }
    v
}

pub fn history_list(tier: Tier) -> Vec<(Vec<Ev>, (f64, f64), f64, usize)> {
    let d = if tier.thorough() { 4 } else { 3 };
    vec![
        (alphabet_c12(), (35.0, -80.0), 500.0, 3),
        (alphabet_c14((35.0, -80.0)), (35.0, -80.0), 500.0, d),
        (alphabet_c13((35.0, -80.0), 500.0, Tier::Quick), (35.0, -80.0), 500.0, d),
        (alphabet_c13((89.0, 10.0), 500.0, Tier::Quick), (89.0, 10.0), 500.0, 3),
    ]
}

pub fn history_indices(n: usize, depth: usize, mut idx: usize) -> Vec<usize> {
    // idx enumerates all sequences of length 1..=depth in length-then-lexicographic order
    let mut len = 1;
    let mut block = n;
    while idx >= block {
        idx -= block;
        len += 1;
        block *= n;
    }
    let _ = depth;
    let mut out = vec![0; len];
    for i in (0..len).rev() {
        out[i] = idx % n;
        idx /= n;
    }
    out
}

pub fn history_count(n: usize, depth: usize) -> usize {
    let mut t = 0;
    let mut b = 1;
    for _ in 0..depth {
        b *= n;
        t += b;
    }
    t
}

/// Compute the hash of every record; `show`: also return the full text of that global index.
pub fn run(tier: Tier, show: Option<usize>) -> (Vec<Section>, Option<String>) {
    let mut sections = vec![];
    let mut shown = None;
    let mut base = 0usize;
    // frames
    let units = frame_units(tier);
    let per_unit: Vec<Vec<u64>> = units
        .par_iter()
        .map(|(li, ci)| frame_unit_cases(*li, *ci, tier).iter().map(|c| fnv(frame_record(c).as_bytes())).collect())
        .collect();
    let mut hashes = vec![];
    for (u, hs) in units.iter().zip(per_unit) {
        if let Some(i) = show {
            if i >= base + hashes.len() && i < base + hashes.len() + hs.len() {
                let cases = frame_unit_cases(u.0, u.1, tier);
                shown = Some(frame_record(&cases[i - base - hashes.len()]));
            }
        }
        hashes.extend(hs);
    }
    base += hashes.len();
    sections.push(Section { name: "frames".into(), hashes });
    // cpr
    let cases = cpr_cases(tier);
    let hashes: Vec<u64> = cases.par_iter().map(|(a, b)| fnv(cpr_record(*a, *b).as_bytes())).collect();
    if let Some(i) = show {
        if i >= base && i < base + hashes.len() {
            let (a, b) = cases[i - base];
            shown = Some(cpr_record(a, b));
        }
    }
    base += hashes.len();
    sections.push(Section { name: "cpr".into(), hashes });
    // tracker histories
    for (k, (alpha, rx, range, depth)) in history_list(tier).into_iter().enumerate() {
        let n = history_count(alpha.len(), depth);
        let hashes: Vec<u64> = (0..n)
            .into_par_iter()
            .map(|i| {
                let idx = history_indices(alpha.len(), depth, i);
                let evs: Vec<&Ev> = idx.iter().map(|j| &alpha[*j]).collect();
                fnv(history_record(&evs, rx, range).as_bytes())
            })
            .collect();
        if let Some(i) = show {
            if i >= base && i < base + n {
                let idx = history_indices(alpha.len(), depth, i - base);
                let evs: Vec<&Ev> = idx.iter().map(|j| &alpha[*j]).collect();
                shown = Some(format!("{}\n{}", evs.iter().map(|e| e.name()).collect::<Vec<_>>().join(" ; "), history_record(&evs, rx, range)));
            }
        }
        base += n;
        sections.push(Section { name: format!("tracker{k}"), hashes });
    }
    // long periodic histories: every word of period <= 3 over two positions x both parities, repeated to 600 events
    // (track lengths of several hundred entries: a capacity bound in one configuration shows only here)
    {
        let rx = (35.0, -80.0);
        let alpha = crate::alpha::alphabet_c14_longtrack(rx);
        let n = alpha.len();
        let mut words: Vec<Vec<usize>> = vec![];
        for p in 1..=3usize {
            for code in 0..n.pow(p as u32) {
                words.push((0..p).map(|i| (code / n.pow(i as u32)) % n).collect());
            }
        }
        let reps = if tier.thorough() { 1500 } else { 600 };
        let hashes: Vec<u64> = words
            .par_iter()
            .map(|w| {
                let evs: Vec<&Ev> = (0..reps).map(|i| &alpha[w[i % w.len()]]).collect();
                fnv(history_record(&evs, rx, 500.0).as_bytes())
            })
            .collect();
        if let Some(i) = show {
            if i >= base && i < base + words.len() {
                let w = &words[i - base];
                let evs: Vec<&Ev> = (0..reps).map(|i| &alpha[w[i % w.len()]]).collect();
                shown = Some(format!("periodic word [{}] x {reps} events\n{}", w.iter().map(|j| alpha[*j].name()).collect::<Vec<_>>().join(" ; "), history_record(&evs, rx, 500.0)));
            }
        }
        sections.push(Section { name: "tracker-long".into(), hashes });
    }
    (sections, shown)
}

/// text of one record (same indexing as `run`)
pub fn run_one(tier: Tier, i: usize) -> (Vec<Section>, Option<String>) {
    run(tier, Some(i))
}

/// CLI used by the configuration builds: `digest <tier> <out-file>` or `show <tier> <index>`
pub fn cli(args: &[String]) -> i32 {
    let tier = if args.get(1).map(String::as_str) == Some("thorough") { Tier::Thorough } else { Tier::Quick };
    match args.first().map(String::as_str) {
        Some("digest") => {
            let (sections, _) = run(tier, None);
            let mut out: Vec<u8> = vec![];
            for s in &sections {
                for h in &s.hashes {
                    out.extend_from_slice(&h.to_le_bytes());
                }
            }
            std::fs::write(&args[2], out).expect("cannot write digest file");
            for s in &sections {
                println!("section {} records {}", s.name, s.hashes.len());
            }
            0
        }
        Some("show") => {
            let i: usize = args[2].parse().expect("index");
            let (_, shown) = run(tier, Some(i));
            println!("{}", shown.unwrap_or_else(|| "index out of range".into()));
            0
        }
        _ => {
            eprintln!("usage: digest <tier> <out> | show <tier> <index>");
            2
        }
    }
}
