//! C11: text rendering == fixed per-type template instantiated with the frame's own decoded values.

use serde_json::json;

use crate::bits::{hex, unhex};
use crate::common::{guarded, Run, Tier};
use crate::e1::{all_leaves, decode, e1_coverage, run_units, Decoded, Local};
use crate::proj::{obs_get, project};
use crate::refdec::{layout, V};
use crate::rtext::render;

fn cf_of(frame: &adsb_deku::Frame) -> Option<u64> {
    match obs_get(&project(frame), "cf") {
        Some(V::U(v)) => Some(*v),
        _ => None,
    }
}

pub fn text_check(bytes: &[u8], loc: &mut Local) {
    loc.inc("decodes");
    let Ok(lay) = layout(bytes) else { return };
    let Decoded::Ok(frame) = decode(bytes) else { return };
    loc.inc("accepted");
    let mark = crate::common::unknown_variant_mark();
    let want = render(&frame, cf_of(&frame));
    let unjudged = crate::common::unknown_variant_mark() != mark;
    let f2 = adsb_deku::Frame { df: frame.df.clone(), crc: frame.crc };
    let got = match guarded(move || f2.to_string()) {
        Ok(s) => s,
        Err(p) => {
            loc.viol("text", format!("{}:panic", lay.leaf), hex(bytes), "a rendering".into(), format!("panic: {p}"));
            return;
        }
    };
    if unjudged {
        // the reference does not know the decoded variant: a panic above is still a violation, the text is not judged
        loc.inc("unjudged_unknown_variant");
        return;
    }
    if got != want {
        // first differing line
        let (mut a, mut b) = (String::new(), String::new());
        for (x, y) in want.lines().zip(got.lines()) {
            if x != y {
                a = x.to_string();
                b = y.to_string();
                break;
            }
        }
        if a.is_empty() && b.is_empty() {
            a = format!("{} lines", want.lines().count());
            b = format!("{} lines", got.lines().count());
        }
        loc.viol("text", format!("{}:text", lay.leaf), hex(bytes), a, b);
    } else {
        loc.outcomes.insert(crate::bits::fnv(got.as_bytes()));
    }
    if lay.df != 19 && got.trim().is_empty() {
        loc.viol("text", format!("{}:empty", lay.leaf), hex(bytes), "non-empty report".into(), "empty".into());
    }
}

/// Pinned (frame, rendering) pairs from the repository's own test file validate R-text itself.
fn pinned_vectors() -> Vec<(Vec<u8>, String)> {
    let repo = std::env::var("VERIF_REPO").unwrap_or_else(|_| "/repo".into());
    let Ok(src) = std::fs::read_to_string(format!("{repo}/libadsb_deku/tests/test.rs")) else { return vec![] };
    let mut out = vec![];
    let mut rest = src.as_str();
    while let Some(i) = rest.find("hex!(\"") {
        rest = &rest[i + 6..];
        let Some(j) = rest.find('"') else { break };
        let h = &rest[..j];
        let next_hex = rest.find("hex!(\"").unwrap_or(rest.len());
        if let Some(k) = rest.find("r#\"") {
            if k < next_hex {
                let body = &rest[k + 3..];
                if let Some(e) = body.find("\"#") {
                    if !body[..e].contains("\n//") && h.len() % 2 == 0 && h.chars().all(|c| c.is_ascii_hexdigit()) {
                        out.push((unhex(h), body[..e].to_string()));
                    }
                }
            }
        }
    }
    out
}

pub fn run(tier: Tier) -> i32 {
    let run = Run::new("C11", tier);
    // reference self-validation on the pinned strings
    let pinned = pinned_vectors();
    let mut ok = 0;
    for (bytes, text) in &pinned {
        if let Decoded::Ok(f) = decode(bytes) {
            let r = render(&f, cf_of(&f));
            if &r == text {
                ok += 1;
            } else {
                run.note(format!("R-text disagrees with pinned string for {} (reference or pinned vector drifted)", hex(bytes)));
            }
        }
    }
    run.add("pinned_vectors", pinned.len() as u64);
    run.add("pinned_vectors_reference_agrees", ok);
    let leaves = all_leaves();
    let st = run_units(&run, &leaves, true, true, |b, loc: &mut Local| text_check(b, loc));
    // joint velocity lattice: the speed / heading lines round derived values (floor, ceil): every boundary row and
    // column of (v_ew, v_ns) complete (quick), all 2^22 combinations for both ground-speed subtypes (thorough)
    {
        use rayon::prelude::*;
        let edge: Vec<u64> = vec![0, 1, 2, 3, 4, 5, 8, 17, 18, 511, 512, 1021, 1022, 1023];
        let jobs: Vec<(u64, u64)> = [1u64, 2].into_iter().flat_map(|stv| (0u64..4).map(move |sg| (stv, sg))).collect();
        let locs: Vec<Local> = jobs
            .par_iter()
            .map(|(stv, signs)| {
                let mut loc = Local::default();
                let mut b = vec![0u8; 14];
                crate::bits::set_bits(&mut b, 1, 5, 17);
                crate::bits::set_bits(&mut b, 6, 3, 5);
                crate::bits::set_bits(&mut b, 9, 24, 0x4840d6);
                crate::bits::set_bits(&mut b, 33, 5, 19);
                crate::bits::set_bits(&mut b, 38, 3, *stv);
                crate::bits::set_bits(&mut b, 32 + 14, 1, signs >> 1);
                crate::bits::set_bits(&mut b, 32 + 25, 1, signs & 1);
                crate::bits::set_bits(&mut b, 32 + 38, 9, 11);
                let mut one = |ev: u64, nv: u64, loc: &mut Local| {
                    crate::bits::set_bits(&mut b, 32 + 15, 10, ev);
                    crate::bits::set_bits(&mut b, 32 + 26, 10, nv);
                    text_check(&b, loc);
                };
                if tier.thorough() {
                    for ev in 0..1024 {
                        for nv in 0..1024 {
                            one(ev, nv, &mut loc);
                        }
                    }
                } else {
                    for e in &edge {
                        for x in 0..1024 {
                            one(*e, x, &mut loc);
                            one(x, *e, &mut loc);
                        }
                    }
                }
                loc
            })
            .collect();
        for loc in locs {
            run.add("extra_cases", loc.counts.get("decodes").copied().unwrap_or(0));
            run.add("nontrivial_extra", loc.counts.get("accepted").copied().unwrap_or(0));
            run.add("velocity_lattice_renderings", loc.counts.get("accepted").copied().unwrap_or(0));
            run.merge_outcomes(&loc.outcomes);
            for v in loc.viols {
                run.violation(v);
            }
        }
    }
    run.sample(json!({"input": "8d40621d58c382d690c8ac2863a7", "expected_first_line": " Extended Squitter Airborne position (barometric altitude)"}));
    let cov = e1_coverage(
        &run,
        &st,
        "every dispatch leaf x context: base, bit-walk, every value of every field (drives every renderer branch: altitude 0/>0, alt None/Some, rate 0/>0, heading/ACAS/autopilot flags, L/W codes, every enum word); rendering compared line by line with the reference template filled from the frame's own decoded values",
        true,
    );
    let mut cov = cov;
    cov["reference_selfvalidation"] = json!({"pinned_vectors": pinned.len(), "agree": ok});
    run.finish(
        "exploration",
        cov,
        vec![
            "templates are transcribed from the README / pinned test strings; for types without a pinned string (surface position, op-status reserved, operational coordination, DF24-31) the template of the pinned tree is golden".into(),
            "values are taken from the decoded frame, so decoding defects (C04-C10) do not fire here".into(),
        ],
    )
}
