//! R-text: reference renderer. One fixed template per frame type (transcribed from the README /
//! pinned test strings), filled from the *decoded* values of the frame through typed field access
//! and this module's own word tables (no Display impl of the subject is used).

use std::fmt::Write;

use adsb_deku::adsb::{
    ADSBVersion, AirborneVelocitySubType, EmergencyState, OperationStatus, VerticalRateSource, ME,
};
use adsb_deku::bds::BDS;
use adsb_deku::{Altitude, CPRFormat, Capability, FlightStatus, Frame, Sign, DF, ICAO};

fn icao(i: &ICAO) -> String {
    format!("{:02x}{:02x}{:02x}", i.0[0], i.0[1], i.0[2])
}

fn cap_word(c: &Capability) -> &'static str {
    match c {
        Capability::AG_UNCERTAIN => "uncertain1",
        Capability::Reserved(_) => "reserved",
        Capability::AG_GROUND => "ground",
        Capability::AG_AIRBORNE => "airborne",
        Capability::AG_UNCERTAIN2 => "uncertain2",
        Capability::AG_UNCERTAIN3 => "airborne?",
        #[allow(unreachable_patterns)]
        _ => {
            crate::common::note_unknown_variant();
            "<variant unknown to the reference>"
        }
    }
}

fn fs_word(f: &FlightStatus) -> &'static str {
    match *f as u8 {
        0 | 4 | 5 => "airborne?",
        1 => "ground?",
        2 => "airborne",
        3 => "ground",
        _ => "reserved",
    }
}

fn cf_word(cf_type: u64) -> &'static str {
    match cf_type {
        0 | 1 => "(ADS-B)",
        2 | 3 | 5 => "(TIS-B)",
        4 | 6 => "(ADS-R)",
        _ => "(unknown addressing scheme)",
    }
}

fn sign_word(s: &Sign) -> &'static str {
    match s {
        Sign::Positive => "",
        Sign::Negative => "-",
        #[allow(unreachable_patterns)]
        _ => {
            crate::common::note_unknown_variant();
            "<variant unknown to the reference>"
        }
    }
}

fn emergency_word(e: &EmergencyState) -> &'static str {
    match e {
        EmergencyState::None => "no emergency",
        EmergencyState::General => "general",
        EmergencyState::Lifeguard => "lifeguard",
        EmergencyState::MinimumFuel => "minimum fuel",
        EmergencyState::NoCommunication => "no communication",
        EmergencyState::UnlawfulInterference => "unflawful interference",
        EmergencyState::DownedAircraft => "downed aircraft",
        EmergencyState::Reserved2 => "reserved2",
        #[allow(unreachable_patterns)]
        _ => {
            crate::common::note_unknown_variant();
            "<variant unknown to the reference>"
        }
    }
}

fn version_digit(v: &ADSBVersion) -> u8 {
    match v {
        ADSBVersion::DOC9871AppendixA => 0,
        ADSBVersion::DOC9871AppendixB => 1,
        ADSBVersion::DOC9871AppendixC => 2,
        #[allow(unreachable_patterns)]
        _ => {
            crate::common::note_unknown_variant();
            99
        }
    }
}

fn altitude_block(f: &mut String, a: &Altitude) {
    let alt = match a.alt {
        None => "None".to_string(),
        Some(v) => format!("{v} ft barometric"),
    };
    writeln!(f, "  Altitude:      {alt}").unwrap();
    writeln!(f, "  CPR type:      Airborne").unwrap();
    writeln!(
        f,
        "  CPR odd flag:  {}",
        match a.odd_flag {
            CPRFormat::Even => "even",
            CPRFormat::Odd => "odd",
        }
    )
    .unwrap();
    writeln!(f, "  CPR latitude:  ({})", a.lat_cpr).unwrap();
    writeln!(f, "  CPR longitude: ({})", a.lon_cpr).unwrap();
}

/// private fields of OperationalMode through Debug
fn om_words(dbg: &str) -> String {
    let get = |k: &str| -> u64 {
        let pat = format!("{k}: ");
        let i = dbg.find(&pat).map(|i| i + pat.len()).unwrap_or(0);
        let rest = &dbg[i..];
        let end = rest.find([',', ' ', '}']).unwrap_or(rest.len());
        match &rest[..end] {
            "true" => 1,
            "false" => 0,
            s => s.parse().unwrap_or(99),
        }
    };
    let mut s = String::new();
    if get("tcas_ra_active") == 1 {
        s.push_str(" TCAS");
    }
    if get("ident_switch_active") == 1 {
        s.push_str(" IDENT_SWITCH_ACTIVE");
    }
    if get("reserved_recv_atc_service") == 1 {
        s.push_str(" ATC");
    }
    if get("single_antenna_flag") == 1 {
        s.push_str(" SAF");
    }
    let sda = get("system_design_assurance");
    if sda != 0 {
        write!(s, " SDA={sda}").unwrap();
    }
    s
}

fn me_text(m: &ME, addr: &ICAO, address_type: &str, capability: &str, transponder: bool) -> String {
    let t = if transponder { " " } else { " (Non-Transponder) " };
    let a = icao(addr);
    let mut f = String::new();
    let addr_line = format!("  Address:       {a} {address_type}\n");
    let ag_line = format!("  Air/Ground:    {capability}\n");
    match m {
        ME::NoPosition(_) => {
            writeln!(f, " Extended Squitter{t}No position information").unwrap();
            f += &addr_line;
            f += &ag_line;
        }
        ME::AircraftIdentification(id) => {
            writeln!(f, " Extended Squitter{t}Aircraft identification and category").unwrap();
            f += &addr_line;
            f += &ag_line;
            writeln!(f, "  Ident:         {}", id.cn).unwrap();
            let tc = match id.tc as u8 {
                1 => "D",
                2 => "C",
                3 => "B",
                _ => "A",
            };
            writeln!(f, "  Category:      {tc}{}", id.ca).unwrap();
        }
        ME::SurfacePosition(_) => {
            writeln!(f, " Extended Squitter{t}Surface position").unwrap();
            f += &addr_line;
        }
        ME::AirbornePositionBaroAltitude(alt) => {
            writeln!(f, " Extended Squitter{t}Airborne position (barometric altitude)").unwrap();
            f += &addr_line;
            f += &ag_line;
            altitude_block(&mut f, alt);
        }
        ME::AirborneVelocity(v) => match &v.sub_type {
            AirborneVelocitySubType::GroundSpeedDecoding(_) => {
                writeln!(f, " Extended Squitter{t}Airborne velocity over ground, subsonic").unwrap();
                f += &addr_line;
                f += &ag_line;
                writeln!(f, "  GNSS delta:    {}{} ft", sign_word(&v.gnss_sign), v.gnss_baro_diff).unwrap();
                if let Some((heading, speed, vrate)) = v.calculate() {
                    writeln!(f, "  Heading:       {}", f64::from(heading).ceil()).unwrap();
                    writeln!(f, "  Speed:         {} kt groundspeed", speed.floor()).unwrap();
                    let src = match v.vrate_src {
                        VerticalRateSource::BarometricPressureAltitude => "barometric",
                        VerticalRateSource::GeometricAltitude => "GNSS",
                        #[allow(unreachable_patterns)]
                        _ => {
                            crate::common::note_unknown_variant();
                            "<variant unknown to the reference>"
                        }
                    };
                    writeln!(f, "  Vertical rate: {vrate} ft/min {src}").unwrap();
                } else {
                    writeln!(f, "  Invalid packet").unwrap();
                }
            }
            AirborneVelocitySubType::AirspeedDecoding(a_) => {
                writeln!(f, " Extended Squitter{t}Airspeed and heading, subsonic").unwrap();
                f += &addr_line;
                f += &ag_line;
                writeln!(f, "  IAS:           {} kt", a_.airspeed).unwrap();
                if v.vrate_value > 0 {
                    writeln!(f, "  Baro rate:     {}{} ft/min", sign_word(&v.vrate_sign), (u32::from(v.vrate_value) - 1) * 64).unwrap();
                }
                writeln!(f, "  NACv:          {}", v.nac_v).unwrap();
            }
            AirborneVelocitySubType::Reserved0(_) | AirborneVelocitySubType::Reserved1(_) => {
                writeln!(f, " Extended Squitter{t}Airborne Velocity status (reserved)").unwrap();
                f += &addr_line;
            }
            #[allow(unreachable_patterns)]
            _ => {
                crate::common::note_unknown_variant();
                f += "<velocity variant unknown to the reference>\n"
            }
        },
        ME::AirbornePositionGNSSAltitude(alt) => {
            writeln!(f, " Extended Squitter{t}Airborne position (GNSS altitude)").unwrap();
            writeln!(f, "  Address:      {a} {address_type}").unwrap();
            altitude_block(&mut f, alt);
        }
        ME::Reserved0(_) | ME::Reserved1(_) => {
            writeln!(f, " Extended Squitter{t}Unknown").unwrap();
            f += &addr_line;
            f += &ag_line;
        }
        ME::SurfaceSystemStatus(_) => {
            writeln!(f, " Extended Squitter{t}Reserved for surface system status").unwrap();
            f += &addr_line;
            f += &ag_line;
        }
        ME::AircraftStatus(s) => {
            writeln!(f, " Extended Squitter{t}Emergency/priority status").unwrap();
            f += &addr_line;
            f += &ag_line;
            writeln!(f, "  Squawk:        {:x}", s.squawk).unwrap();
            writeln!(f, "  Emergency/priority:    {}", emergency_word(&s.emergency_state)).unwrap();
        }
        ME::TargetStateAndStatusInformation(ti) => {
            writeln!(f, " Extended Squitter{t}Target state and status (V2)").unwrap();
            f += &addr_line;
            f += &ag_line;
            writeln!(f, "  Target State and Status:").unwrap();
            writeln!(f, "    Target altitude:   MCP, {} ft", ti.altitude).unwrap();
            writeln!(f, "    Altimeter setting: {} millibars", ti.qnh).unwrap();
            if ti.is_heading {
                writeln!(f, "    Target heading:    {}", ti.heading).unwrap();
            }
            if ti.tcas {
                write!(f, "    ACAS:              operational ").unwrap();
                if ti.autopilot {
                    write!(f, "autopilot ").unwrap();
                }
                if ti.vnac {
                    write!(f, "vnav ").unwrap();
                }
                if ti.alt_hold {
                    write!(f, "altitude-hold ").unwrap();
                }
                if ti.approach {
                    write!(f, " approach").unwrap();
                }
                writeln!(f).unwrap();
            } else {
                writeln!(f, "    ACAS:              NOT operational").unwrap();
            }
            writeln!(f, "    NACp:              {}", ti.nacp).unwrap();
            writeln!(f, "    NICbaro:           {}", ti.nicbaro).unwrap();
            writeln!(f, "    SIL:               {} (per sample)", ti.sil).unwrap();
            writeln!(f, "    QNH:               {} millibars", ti.qnh).unwrap();
        }
        ME::AircraftOperationalCoordination(_) => {
            writeln!(f, " Extended Squitter{t}Aircraft Operational Coordination").unwrap();
            f += &addr_line;
        }
        ME::AircraftOperationStatus(OperationStatus::Airborne(o)) => {
            writeln!(f, " Extended Squitter{t}Aircraft operational status (airborne)").unwrap();
            f += &addr_line;
            f += &ag_line;
            writeln!(f, "  Aircraft Operational Status:").unwrap();
            writeln!(f, "   Version:            {}", version_digit(&o.version_number)).unwrap();
            let c = &o.capability_class;
            let mut cc = String::new();
            for (flag, w) in [(c.acas, " ACAS"), (c.cdti, " CDTI"), (c.arv, " ARV"), (c.ts, " TS"), (c.tc, " TC")] {
                if flag == 1 {
                    cc.push_str(w);
                }
            }
            writeln!(f, "   Capability classes:{cc}").unwrap();
            writeln!(f, "   Operational modes: {}", om_words(&format!("{:?}", o.operational_mode))).unwrap();
            writeln!(f, "   NIC-A:              {}", o.nic_supplement_a).unwrap();
            writeln!(f, "   NACp:               {}", o.navigational_accuracy_category).unwrap();
            writeln!(f, "   GVA:                {}", o.geometric_vertical_accuracy).unwrap();
            writeln!(f, "   SIL:                {} (per hour)", o.source_integrity_level).unwrap();
            writeln!(f, "   NICbaro:            {}", o.barometric_altitude_integrity).unwrap();
            if o.horizontal_reference_direction == 1 {
                writeln!(f, "   Heading reference:  magnetic north").unwrap();
            } else {
                writeln!(f, "   Heading reference:  true north").unwrap();
            }
        }
        ME::AircraftOperationStatus(OperationStatus::Surface(o)) => {
            writeln!(f, " Extended Squitter{t}Aircraft operational status (surface)").unwrap();
            f += &addr_line;
            f += &ag_line;
            writeln!(f, "  Aircraft Operational Status:").unwrap();
            writeln!(f, "   Version:            {}", version_digit(&o.version_number)).unwrap();
            writeln!(f, "   NIC-A:              {}", o.nic_supplement_a).unwrap();
            writeln!(f, "   NIC-C:              {}", o.capability_class.nic_supplement_c).unwrap();
            writeln!(f, "   NACv:               {}", o.capability_class.nac_v).unwrap();
            write!(f, "   Capability classes:").unwrap();
            if o.lw_codes != 0 {
                writeln!(f, " L/W={}", o.lw_codes).unwrap();
            } else {
                writeln!(f).unwrap();
            }
            writeln!(f, "   Operational modes: {}", om_words(&format!("{:?}", o.operational_mode))).unwrap();
            writeln!(f, "   NACp:               {}", o.navigational_accuracy_category).unwrap();
            writeln!(f, "   SIL:                {} (per hour)", o.source_integrity_level).unwrap();
            writeln!(f, "   NICbaro:            {}", o.barometric_altitude_integrity).unwrap();
            if o.horizontal_reference_direction == 1 {
                writeln!(f, "   Heading reference:  magnetic north").unwrap();
            } else {
                writeln!(f, "   Heading reference:  true north").unwrap();
            }
        }
        ME::AircraftOperationStatus(OperationStatus::Reserved(..)) => {
            writeln!(f, " Extended Squitter{t}Aircraft operational status (reserved)").unwrap();
            f += &addr_line;
        }
        #[allow(unreachable_patterns)]
        _ => {
            crate::common::note_unknown_variant();
            f += "<ME variant unknown to the reference>\n"
        }
    }
    f
}

fn bds_text(b: &BDS) -> String {
    match b {
        BDS::Empty(_) => "Comm-B format: empty response\n".to_string(),
        BDS::AircraftIdentification(s) => format!("Comm-B format: BDS2,0 Aircraft identification\n  Ident:         {s}\n"),
        BDS::DataLinkCapability(_) => "Comm-B format: BDS1,0 Datalink capabilities\n".to_string(),
        BDS::Unknown(_) => "Comm-B format: unknown format\n".to_string(),
        #[allow(unreachable_patterns)]
        _ => {
            crate::common::note_unknown_variant();
            "<BDS variant unknown to the reference>\n".to_string()
        }
    }
}

pub fn render(frame: &Frame, cf_type: Option<u64>) -> String {
    let crc = frame.crc;
    let mut f = String::new();
    match &frame.df {
        DF::ShortAirAirSurveillance { altitude, .. } => {
            writeln!(f, " Short Air-Air Surveillance").unwrap();
            writeln!(f, "  ICAO Address:  {crc:06x} (Mode S / ADS-B)").unwrap();
            if altitude.0 > 0 {
                writeln!(f, "  Air/Ground:    airborne?").unwrap();
                writeln!(f, "  Altitude:      {} ft barometric", altitude.0).unwrap();
            } else {
                writeln!(f, "  Air/Ground:    ground").unwrap();
            }
        }
        DF::SurveillanceAltitudeReply { fs, ac, .. } => {
            writeln!(f, " Surveillance, Altitude Reply").unwrap();
            writeln!(f, "  ICAO Address:  {crc:06x} (Mode S / ADS-B)").unwrap();
            writeln!(f, "  Air/Ground:    {}", fs_word(fs)).unwrap();
            if ac.0 > 0 {
                writeln!(f, "  Altitude:      {} ft barometric", ac.0).unwrap();
            }
        }
        DF::SurveillanceIdentityReply { fs, id, .. } => {
            writeln!(f, " Surveillance, Identity Reply").unwrap();
            writeln!(f, "  ICAO Address:  {crc:06x} (Mode S / ADS-B)").unwrap();
            writeln!(f, "  Air/Ground:    {}", fs_word(fs)).unwrap();
            writeln!(f, "  Identity:      {:04x}", id.0).unwrap();
        }
        DF::AllCallReply { capability, icao: aa, .. } => {
            writeln!(f, " All Call Reply").unwrap();
            writeln!(f, "  ICAO Address:  {} (Mode S / ADS-B)", icao(aa)).unwrap();
            writeln!(f, "  Air/Ground:    {}", cap_word(capability)).unwrap();
        }
        DF::LongAirAir { altitude, .. } => {
            writeln!(f, " Long Air-Air ACAS").unwrap();
            writeln!(f, "  ICAO Address:  {crc:06x} (Mode S / ADS-B)").unwrap();
            if altitude.0 > 0 {
                writeln!(f, "  Air/Ground:    airborne?").unwrap();
                writeln!(f, "  Baro altitude: {} ft", altitude.0).unwrap();
            } else {
                writeln!(f, "  Air/Ground:    ground").unwrap();
            }
        }
        DF::ADSB(a) => {
            f += &me_text(&a.me, &a.icao, "(Mode S / ADS-B)", cap_word(&a.capability), true);
        }
        DF::TisB { cf, .. } => {
            f += &me_text(&cf.me, &cf.aa, cf_word(cf_type.unwrap_or(99)), "airborne?", false);
        }
        DF::ExtendedQuitterMilitaryApplication { .. } => {}
        DF::CommBAltitudeReply { bds, alt, .. } => {
            writeln!(f, " Comm-B, Altitude Reply").unwrap();
            writeln!(f, "  ICAO Address:  {crc:x} (Mode S / ADS-B)").unwrap();
            writeln!(f, "  Altitude:      {} ft", alt.0).unwrap();
            write!(f, "  {}", bds_text(bds)).unwrap();
        }
        DF::CommBIdentityReply { id, bds, .. } => {
            writeln!(f, " Comm-B, Identity Reply").unwrap();
            writeln!(f, "    ICAO Address:  {crc:x} (Mode S / ADS-B)").unwrap();
            writeln!(f, "    Squawk:        {id:x}").unwrap();
            write!(f, "    {}", bds_text(bds)).unwrap();
        }
        DF::ModeSExtendedSquitter { .. } => {
            writeln!(f, " Mode S Extended Squitter Message").unwrap();
            writeln!(f, "    ICAO Address:     {crc:x} (Mode S / ADS-B)").unwrap();
        }
        #[allow(unreachable_patterns)]
        _ => {
            crate::common::note_unknown_variant();
            f += "<DF variant unknown to the reference>\n"
        }
    }
    f
}
