//! Run context: tiers, violation collection, known findings, replay files, evidence.

use std::collections::{BTreeMap, BTreeSet};
use std::fs;
use std::path::PathBuf;
use std::sync::Mutex;
use std::time::Instant;

use serde_json::{json, Value};

use crate::bits::fnv;

pub use crate::gen::Tier;

pub fn verif_root() -> PathBuf {
    std::env::var("VERIF_ROOT").map(PathBuf::from).unwrap_or_else(|_| PathBuf::from("/verif"))
}

#[derive(Clone, Debug)]
pub struct Violation {
    pub oracle: String,
    /// structural class (dispatch path / field / deviation kind)
    pub class: String,
    /// the concrete input (hex frame, event script, schedule ...)
    pub input: String,
    pub expected: String,
    pub observed: String,
}

impl Violation {
    pub fn key(&self) -> u64 {
        fnv(format!("{}|{}|{}", self.oracle, self.input, self.observed).as_bytes())
    }
}

pub struct Finding {
    pub id: String,
    pub property: String,
    pub status: String,
    pub what: String,
    pub keys: BTreeSet<u64>,
}

pub fn load_findings(property: &str) -> Vec<Finding> {
    let path = verif_root().join("known_findings.json");
    let Ok(text) = fs::read_to_string(&path) else { return vec![] };
    let v: Value = serde_json::from_str(&text).expect("known_findings.json is not valid JSON");
    let mut out = vec![];
    for f in v["findings"].as_array().cloned().unwrap_or_default() {
        if f["property"].as_str() != Some(property) {
            continue;
        }
        let status = f["status"].as_str().unwrap_or("open").to_string();
        let mut keys = BTreeSet::new();
        if status == "open" {
            if let Some(kf) = f["keys_file"].as_str() {
                let data = fs::read_to_string(verif_root().join(kf))
                    .unwrap_or_else(|e| panic!("cannot read keys file {kf}: {e}"));
                for line in data.lines() {
                    let line = line.trim();
                    if !line.is_empty() {
                        keys.insert(u64::from_str_radix(line, 16).expect("bad key"));
                    }
                }
            }
        }
        out.push(Finding {
            id: f["id"].as_str().unwrap_or("?").to_string(),
            property: property.to_string(),
            status,
            what: f["what"].as_str().unwrap_or("").to_string(),
            keys,
        });
    }
    out
}

/// Collector shared by all workers of one check run.
pub struct Run {
    pub property: String,
    pub tier: Tier,
    pub seed: u64,
    pub start: Instant,
    pub bless: bool,
    viol: Mutex<Vec<Violation>>,
    viol_count: Mutex<BTreeMap<String, u64>>,
    pub counters: Mutex<BTreeMap<String, u64>>,
    pub samples: Mutex<Vec<Value>>,
    pub notes: Mutex<Vec<String>>,
    pub outcomes: Mutex<BTreeSet<u64>>,
}

/// Keep at most this many violation records per class in memory (all are counted).
const MAX_PER_CLASS: u64 = 200_000;

impl Run {
    pub fn new(property: &str, tier: Tier) -> Self {
        let seed = std::env::var("VERIF_SEED").ok().and_then(|s| s.parse().ok()).unwrap_or(0);
        Run {
            property: property.to_string(),
            tier,
            seed,
            start: Instant::now(),
            bless: std::env::var("VERIF_BLESS").is_ok(),
            viol: Mutex::new(vec![]),
            viol_count: Mutex::new(BTreeMap::new()),
            counters: Mutex::new(BTreeMap::new()),
            samples: Mutex::new(vec![]),
            notes: Mutex::new(vec![]),
            outcomes: Mutex::new(BTreeSet::new()),
        }
    }

    pub fn violation(&self, v: Violation) {
        let mut c = self.viol_count.lock().unwrap();
        let n = c.entry(v.class.clone()).or_insert(0);
        *n += 1;
        if *n <= MAX_PER_CLASS {
            drop(c);
            self.viol.lock().unwrap().push(v);
        }
    }

    pub fn add(&self, counter: &str, n: u64) {
        *self.counters.lock().unwrap().entry(counter.to_string()).or_insert(0) += n;
    }

    pub fn merge_counts(&self, local: &BTreeMap<&'static str, u64>) {
        let mut c = self.counters.lock().unwrap();
        for (k, v) in local {
            *c.entry((*k).to_string()).or_insert(0) += *v;
        }
    }

    pub fn merge_maxes(&self, local: &BTreeMap<&'static str, u64>) {
        let mut c = self.counters.lock().unwrap();
        for (k, v) in local {
            let e = c.entry((*k).to_string()).or_insert(0);
            *e = (*e).max(*v);
        }
    }

    pub fn get(&self, counter: &str) -> u64 {
        self.counters.lock().unwrap().get(counter).copied().unwrap_or(0)
    }

    pub fn sample(&self, v: Value) {
        let mut s = self.samples.lock().unwrap();
        if s.len() < 12 {
            s.push(v);
        }
    }

    pub fn note(&self, s: impl Into<String>) {
        self.notes.lock().unwrap().push(s.into());
    }

    pub fn outcome(&self, h: u64) {
        let mut o = self.outcomes.lock().unwrap();
        if o.len() < 5_000_000 {
            o.insert(h);
        }
    }

    pub fn merge_outcomes(&self, hs: &BTreeSet<u64>) {
        let mut o = self.outcomes.lock().unwrap();
        for h in hs {
            if o.len() >= 5_000_000 {
                break;
            }
            o.insert(*h);
        }
    }

    /// Decide the verdict, print KNOWN-FINDING / VIOLATION lines, write replay files and the
    /// evidence file. Returns the process exit code.
    pub fn finish(&self, level: &str, mut coverage: Value, assumptions: Vec<String>) -> i32 {
        let root = verif_root();
        let mut viols = self.viol.lock().unwrap().clone();
        viols.sort_by(|a, b| {
            (&a.class, a.input.len(), &a.input, &a.oracle).cmp(&(&b.class, b.input.len(), &b.input, &b.oracle))
        });
        let findings = load_findings(&self.property);
        let mut known_hits: BTreeMap<String, u64> = BTreeMap::new();
        let mut fresh: Vec<&Violation> = vec![];
        for v in &viols {
            let k = v.key();
            let mut hit = false;
            for f in &findings {
                if f.status == "open" && f.keys.contains(&k) {
                    *known_hits.entry(f.id.clone()).or_insert(0) += 1;
                    hit = true;
                    break;
                }
            }
            if !hit {
                fresh.push(v);
            }
        }

        if self.bless {
            // manual step: write per-class key files for curation into known_findings.json
            let dir = root.join("known_findings");
            fs::create_dir_all(&dir).unwrap();
            let mut by_class: BTreeMap<String, BTreeSet<u64>> = BTreeMap::new();
            let mut witness: BTreeMap<String, &Violation> = BTreeMap::new();
            for v in &fresh {
                by_class.entry(v.class.clone()).or_default().insert(v.key());
                witness.entry(v.class.clone()).or_insert(v);
            }
            for (class, keys) in &by_class {
                let fname = format!(
                    "{}-{}.{}.keys",
                    self.property,
                    class.replace(['/', ' ', ':'], "_"),
                    self.tier.name()
                );
                let body: String = keys.iter().map(|k| format!("{k:016x}\n")).collect();
                fs::write(dir.join(&fname), body).unwrap();
                let w = witness[class];
                println!(
                    "BLESS class={class} cases={} file=known_findings/{fname}\n   witness input={} expected={} observed={}",
                    keys.len(),
                    w.input,
                    w.expected,
                    w.observed
                );
            }
        }

        for f in &findings {
            if let Some(n) = known_hits.get(&f.id) {
                println!("KNOWN-FINDING: property={} {}: {} ({} cases)", self.property, f.id, f.what, n);
            }
        }

        // replay files for fresh violations (first few per class)
        let mut exit = 0;
        let mut printed = 0u32;
        let mut per_class: BTreeMap<&str, u32> = BTreeMap::new();
        let mut classes: BTreeMap<String, u64> = BTreeMap::new();
        for v in &fresh {
            *classes.entry(v.class.clone()).or_insert(0) += 1;
            let n = per_class.entry(v.class.as_str()).or_insert(0);
            *n += 1;
            if *n > 2 {
                continue;
            }
            let dir = root.join("replays").join(&self.property);
            fs::create_dir_all(&dir).ok();
            let path = dir.join(format!("{:016x}.json", v.key()));
            let rec = json!({
                "property": self.property, "oracle": v.oracle, "class": v.class,
                "input": v.input, "expected": v.expected, "observed": v.observed,
                "tier": self.tier.name(),
                "replay": format!("bin/vcheck replay {}", path.display()),
            });
            fs::write(&path, serde_json::to_string_pretty(&rec).unwrap()).ok();
            printed += 1;
            if !self.bless && printed <= 24 {
                println!("VIOLATION property={} replay={}", self.property, path.display());
                println!(
                    "  class={} oracle={} input={} expected={} observed={}",
                    v.class,
                    v.oracle,
                    trunc(&v.input),
                    trunc(&v.expected),
                    trunc(&v.observed)
                );
            }
            exit = 1;
        }
        if self.bless {
            exit = 0;
        }
        // frames that decoded to an enum variant the reference does not know were left unjudged (never a violation:
        // the reference cannot see their fields); without any real violation that is "no verdict", not "held"
        let unknown = unknown_variant_total();
        if unknown > 0 {
            if let Some(obj) = coverage.as_object_mut() {
                obj.insert("unjudged_unknown_variant_cases".into(), json!(unknown));
            }
            if exit == 0 && !self.bless {
                println!("MACHINERY: {unknown} projections / renderings met a variant of a subject enum that the reference does not know (a widened public enum); those cases were not judged - no verdict");
                exit = 2;
            }
        }

        let total_v: u64 = self.viol_count.lock().unwrap().values().sum();
        let counters = self.counters.lock().unwrap().clone();
        let wall = self.start.elapsed().as_secs_f64();
        if let Some(obj) = coverage.as_object_mut() {
            obj.entry("samples").or_insert_with(|| json!(self.samples.lock().unwrap().clone()));
            obj.insert("counters".into(), json!(counters));
            obj.insert("distinct_observed_outcomes".into(), json!(self.outcomes.lock().unwrap().len()));
            obj.insert("notes".into(), json!(self.notes.lock().unwrap().clone()));
            obj.insert("known_finding_hits".into(), json!(known_hits));
            obj.insert("fresh_violation_classes".into(), json!(classes));
        }
        let ev = json!({
            "property_id": self.property,
            "tier": self.tier.name(),
            "seed": self.seed,
            "level": level,
            "coverage": coverage,
            "assumptions": assumptions,
            "wall_s": wall,
            "violations": fresh.len() as u64,
            "violations_total_incl_known": total_v,
        });
        let evdir = root.join("evidence");
        fs::create_dir_all(&evdir).ok();
        let p = evdir.join(format!("{}.json", self.property));
        if let Err(e) = fs::write(&p, serde_json::to_string_pretty(&ev).unwrap()) {
            eprintln!("MACHINERY: cannot write evidence {}: {e}", p.display());
            return 2;
        }
        println!(
            "{} {} done: wall={:.1}s fresh_violations={} known_hits={} evidence={}",
            self.property,
            self.tier.name(),
            wall,
            fresh.len(),
            known_hits.values().sum::<u64>(),
            p.display()
        );
        exit
    }
}

fn trunc(s: &str) -> String {
    if s.len() > 300 {
        format!("{}...", &s[..300])
    } else {
        s.to_string()
    }
}

/// Run `f` catching panics; returns Err(message) on panic. The default panic hook is silenced by
/// `silence_panics()` once at start.
pub fn guarded<T>(f: impl FnOnce() -> T + std::panic::UnwindSafe) -> Result<T, String> {
    match std::panic::catch_unwind(f) {
        Ok(v) => Ok(v),
        Err(e) => {
            let msg = if let Some(s) = e.downcast_ref::<&str>() {
                (*s).to_string()
            } else if let Some(s) = e.downcast_ref::<String>() {
                s.clone()
            } else {
                "panic (non-string payload)".to_string()
            };
            Err(msg)
        }
    }
}

thread_local! {
    pub static LAST_PANIC_LOC: std::cell::RefCell<String> = const { std::cell::RefCell::new(String::new()) };
}

/// location and message of the most recent panic on any thread (for panics that escape `guarded`)
pub static GLOBAL_LAST_PANIC: std::sync::Mutex<(String, String)> = std::sync::Mutex::new((String::new(), String::new()));

pub fn silence_panics() {
    std::panic::set_hook(Box::new(|info| {
        let loc = info.location().map(|l| format!("{}:{}", l.file(), l.line())).unwrap_or_default();
        let msg = if let Some(s) = info.payload().downcast_ref::<&str>() {
            (*s).to_string()
        } else if let Some(s) = info.payload().downcast_ref::<String>() {
            s.clone()
        } else {
            String::new()
        };
        if let Ok(mut g) = GLOBAL_LAST_PANIC.lock() {
            *g = (loc.clone(), msg);
        }
        LAST_PANIC_LOC.with(|l| *l.borrow_mut() = loc);
    }));
}

pub fn last_panic_loc() -> String {
    LAST_PANIC_LOC.with(|l| l.borrow().clone())
}

// ------------------------------------------------------------------ variants the reference does not know
thread_local! {
    static UNKNOWN_VARIANT: std::cell::Cell<u64> = const { std::cell::Cell::new(0) };
}
static UNKNOWN_VARIANT_TOTAL: std::sync::atomic::AtomicU64 = std::sync::atomic::AtomicU64::new(0);

/// Called from the catch-all arm of every `match` over a subject enum (unreachable on the pinned tree).
pub fn note_unknown_variant() {
    UNKNOWN_VARIANT.with(|c| c.set(c.get() + 1));
    UNKNOWN_VARIANT_TOTAL.fetch_add(1, std::sync::atomic::Ordering::Relaxed);
}

/// Per-thread count: a judge compares it before / after projecting or rendering one frame.
pub fn unknown_variant_mark() -> u64 {
    UNKNOWN_VARIANT.with(std::cell::Cell::get)
}

pub fn unknown_variant_total() -> u64 {
    UNKNOWN_VARIANT_TOTAL.load(std::sync::atomic::Ordering::Relaxed)
}
