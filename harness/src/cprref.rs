//! R-cpr: independent CPR encoder / global decoder (DO-260B / ICAO 9871 D.2.4.7), NL by the closed
//! formula, exact haversine. f64 throughout, std math (not libm).

use std::f64::consts::PI;

pub const NB: f64 = 131072.0; // 2^17

/// Number of longitude zones by the closed formula (1090-WP-9-14 table is derived from it).
pub fn nl(lat: f64) -> u32 {
    let a = lat.abs();
    if a == 0.0 {
        return 59;
    }
    if a == 87.0 {
        return 2;
    }
    if a > 87.0 {
        return 1;
    }
    let nz = 15.0;
    let num = 1.0 - (PI / (2.0 * nz)).cos();
    let den = (PI / 180.0 * a).cos().powi(2);
    let x = 1.0 - num / den;
    (2.0 * PI / x.acos()).floor() as u32
}

/// The transition latitude below which NL >= n (for n in 2..=59): the published table values are
/// these numbers rounded to 8 decimals.
pub fn nl_transition(n: u32) -> f64 {
    let nz = 15.0;
    let num = 1.0 - (PI / (2.0 * nz)).cos();
    let den = 1.0 - (2.0 * PI / f64::from(n)).cos();
    (180.0 / PI) * (num / den).sqrt().acos()
}

pub fn pmod(a: f64, b: f64) -> f64 {
    let r = a % b;
    if r < 0.0 {
        r + b
    } else {
        r
    }
}

pub fn dlat(odd: bool) -> f64 {
    360.0 / (60.0 - if odd { 1.0 } else { 0.0 })
}

/// Encode (lat, lon) into (YZ, XZ) for the given parity.
pub fn encode(lat: f64, lon: f64, odd: bool) -> (u32, u32) {
    let i = if odd { 1.0 } else { 0.0 };
    let dl = dlat(odd);
    // zone index and fraction from the same quotient (fmod and floor(lat/dl) can disagree by an ulp
    // exactly on a zone boundary)
    let q = lat / dl;
    let z = q.floor();
    let yz = (NB * (q - z) + 0.5).floor();
    let rlat = dl * (yz / NB + z);
    let nlv = f64::from(nl(rlat));
    let dlon = 360.0 / (nlv - i).max(1.0);
    let ql = lon / dlon;
    let xz = (NB * (ql - ql.floor()) + 0.5).floor();
    ((yz as u64 % 131072) as u32, (xz as u64 % 131072) as u32)
}

#[derive(Clone, Copy, Debug, PartialEq)]
pub struct Rep {
    pub odd: bool,
    pub yz: u32,
    pub xz: u32,
}

#[derive(Clone, Copy, Debug, PartialEq)]
pub enum Decode {
    /// equal parity
    SameParity,
    /// a zone latitude outside [-90, 90]
    LatRange,
    /// the two zone latitudes have different NL
    NlMismatch,
    Pos { lat: f64, lon: f64 },
}

/// The two zone latitudes of a pair (even, odd).
pub fn rlats(yz_even: u32, yz_odd: u32) -> (f64, f64) {
    let y0 = f64::from(yz_even) / NB;
    let y1 = f64::from(yz_odd) / NB;
    let j = (59.0 * y0 - 60.0 * y1 + 0.5).floor();
    let mut r0 = dlat(false) * (pmod(j, 60.0) + y0);
    let mut r1 = dlat(true) * (pmod(j, 59.0) + y1);
    if r0 >= 270.0 {
        r0 -= 360.0;
    }
    if r1 >= 270.0 {
        r1 -= 360.0;
    }
    (r0, r1)
}

/// Reference global decode; `second` is the more recent report.
pub fn decode(first: Rep, second: Rep) -> Decode {
    if first.odd == second.odd {
        return Decode::SameParity;
    }
    let (even, odd) = if first.odd { (second, first) } else { (first, second) };
    let (r0, r1) = rlats(even.yz, odd.yz);
    if !(-90.0..=90.0).contains(&r0) || !(-90.0..=90.0).contains(&r1) {
        return Decode::LatRange;
    }
    if nl(r0) != nl(r1) {
        return Decode::NlMismatch;
    }
    let lat = if second.odd { r1 } else { r0 };
    let nlv = f64::from(nl(lat));
    let i = if second.odd { 1.0 } else { 0.0 };
    let ni = (nlv - i).max(1.0);
    let x0 = f64::from(even.xz) / NB;
    let x1 = f64::from(odd.xz) / NB;
    let m = (x0 * (nlv - 1.0) - x1 * nlv + 0.5).floor();
    let c = if second.odd { x1 } else { x0 };
    let mut lon = (360.0 / ni) * (pmod(m, ni) + c);
    if lon >= 180.0 {
        lon -= 360.0;
    }
    Decode::Pos { lat, lon }
}

/// Great-circle distance in km, R = 6371 km (exact haversine in f64).
pub fn haversine_km(a: (f64, f64), b: (f64, f64)) -> f64 {
    let (la1, lo1) = (a.0.to_radians(), a.1.to_radians());
    let (la2, lo2) = (b.0.to_radians(), b.1.to_radians());
    let s1 = ((la2 - la1) / 2.0).sin();
    let s2 = ((lo2 - lo1) / 2.0).sin();
    let h = s1 * s1 + la1.cos() * la2.cos() * s2 * s2;
    2.0 * 6371.0 * h.sqrt().min(1.0).asin()
}

#[cfg(test)]
mod tests {
    use super::*;
    #[test]
    fn published_vector() {
        // 8D40621D58C382D690C8AC2863A7 (even) / 8D40621D58C386435CC412692AD6 (odd): 52.2572, 3.91937
        let e = Rep { odd: false, yz: 93000, xz: 51372 };
        let o = Rep { odd: true, yz: 74158, xz: 50194 };
        match decode(o, e) {
            Decode::Pos { lat, lon } => {
                assert!((lat - 52.2572021484375).abs() < 1e-9);
                assert!((lon - 3.91937255859375).abs() < 1e-9);
            }
            x => panic!("{x:?}"),
        }
        assert_eq!(encode(52.2572021484375, 3.91937255859375, false), (93000, 51372));
    }
    #[test]
    fn nl_table_spot() {
        assert_eq!(nl(10.0), 59);
        assert_eq!(nl(10.5), 58);
        assert_eq!(nl(86.9), 2);
        assert_eq!(nl(87.1), 1);
        assert!((nl_transition(59) - 10.47047130).abs() < 1e-7);
        assert!((nl_transition(2) - 87.0).abs() < 1e-7);
    }
}
