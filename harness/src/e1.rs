//! E1: input-lattice explorer. Enumerates, per dispatch leaf, bit-walks, complete field sweeps,
//! boundary pairs and contexts; every case is decoded once by the real code and compared with the
//! reference decoder.

use std::collections::{BTreeMap, BTreeSet};

use adsb_deku::Frame;
use rayon::prelude::*;
use serde_json::json;

use crate::bits::{fnv, hex};
use crate::common::{guarded, last_panic_loc, Run, Tier, Violation};
use crate::proj::{df_code, obs_get, project, Obs};
use crate::refdec::{ref_decode, Kind, RefObs, Reject, V};

pub use crate::gen::{all_leaves, contexts, unit_cases, unit_cases_tagged, Case, LeafSpec};

#[derive(Default)]
pub struct Local {
    pub counts: BTreeMap<&'static str, u64>,
    pub maxes: BTreeMap<&'static str, u64>,
    pub outcomes: BTreeSet<u64>,
    pub viols: Vec<Violation>,
}

impl Local {
    pub fn inc(&mut self, k: &'static str) {
        *self.counts.entry(k).or_insert(0) += 1;
    }
    pub fn viol(&mut self, oracle: &str, class: String, input: String, expected: String, observed: String) {
        self.viols.push(Violation { oracle: oracle.into(), class, input, expected, observed });
    }
}

pub enum Decoded {
    Ok(Frame),
    Err(String),
    Panic(String),
}

pub fn decode(bytes: &[u8]) -> Decoded {
    let b = bytes.to_vec();
    match guarded(move || Frame::from_bytes(&b)) {
        Ok(Ok(f)) => Decoded::Ok(f),
        Ok(Err(e)) => Decoded::Err(format!("{e:?}")),
        Err(p) => Decoded::Panic(format!("{p} @ {}", last_panic_loc())),
    }
}

/// Expected value with per-field adjustments where the subject's type folds several raw values.
fn expected_of(rf: &crate::refdec::RefField) -> V {
    if rf.def.name == "me.status.sub_type" && rf.raw >= 3 {
        return V::S("reserved".into());
    }
    // enums with a catch-all variant: the named codes decode to their named variant, every other code to the
    // catch-all carrying the code (projected as 0x100 + code)
    if rf.def.name == "ca" && (1..=3).contains(&rf.raw) {
        return V::U(0x100 + rf.raw);
    }
    if rf.def.name == "dr" && ![0, 1, 4, 5].contains(&rf.raw) {
        return V::U(0x100 + rf.raw);
    }
    if rf.def.name == "me.vel.kind" {
        return V::U(match rf.raw {
            0 => 0,
            1 | 2 => 1,
            3 | 4 => 3,
            _ => 5,
        });
    }
    if rf.def.name == "me.ops.st" && rf.raw >= 2 {
        return V::S("reserved".into());
    }
    rf.val.clone()
}

/// Does the observed ME variant correspond to type code `tc`?
pub fn tc_matches(obs: &Obs, tc: u64) -> bool {
    if let Some(V::U(class)) = obs_get(obs, "me.tc_class") {
        return match class {
            5 => (5..=8).contains(&tc),
            9 => (9..=18).contains(&tc),
            20 => (20..=22).contains(&tc),
            25 => (25..=27).contains(&tc),
            _ => false,
        } && obs_get(obs, "me.tc").map_or(true, |v| *v == V::U(tc));
    }
    obs_get(obs, "me.tc").map_or(false, |v| *v == V::U(tc))
}

/// Compare all reference fields owned by one of `props` with the projection of the real frame.
pub fn compare_fields(bytes: &[u8], r: &RefObs, frame: &Frame, props: &[u8], loc: &mut Local, oracle: &str) {
    let mark = crate::common::unknown_variant_mark();
    let obs = project(frame);
    if crate::common::unknown_variant_mark() != mark {
        loc.inc("unjudged_unknown_variant");
        return;
    }
    let leaf = &r.layout.leaf;
    for rf in &r.fields {
        if rf.def.kind == Kind::Opaque {
            continue;
        }
        let owned = props.contains(&rf.def.prop);
        let is_tc = rf.def.name == "me.tc";
        if is_tc {
            if props.contains(&10) {
                loc.inc("dispatch_checks");
                if !tc_matches(&obs, rf.raw) {
                    loc.viol(
                        oracle,
                        format!("{leaf}:me.variant"),
                        hex(bytes),
                        format!("variant of TC {}", rf.raw),
                        format!("{:?}", obs.iter().filter(|(n, _)| n.starts_with("me.tc")).collect::<Vec<_>>()),
                    );
                }
            }
            continue;
        }
        if !owned {
            continue;
        }
        loc.inc("field_comparisons");
        let exp = expected_of(rf);
        match obs_get(&obs, rf.def.name) {
            Some(v) if exp.accepts(v) => {
                loc.outcomes.insert(fnv(format!("{}={}", rf.def.name, v.show()).as_bytes()));
            }
            Some(v) => loc.viol(oracle, format!("{leaf}:{}", rf.def.name), hex(bytes), exp.show(), v.show()),
            None => loc.viol(oracle, format!("{leaf}:{}", rf.def.name), hex(bytes), exp.show(), "<field absent>".into()),
        }
    }
}

pub struct E1Stats {
    pub units: u64,
    pub cases: u64,
    pub leaves: u64,
}

/// Drive `check(bytes, local)` over every case of every selected leaf, in parallel by work unit.
pub fn run_units<F>(run: &Run, leaves: &[LeafSpec], sweep: bool, pairs: bool, check: F) -> E1Stats
where
    F: Fn(&[u8], &mut Local) + Sync,
{
    run_units_tagged(run, leaves, sweep, pairs, |c: &Case, _base_ok: bool, loc: &mut Local| check(&c.bytes, loc))
}

/// Same, with the owners of the varied field(s) and whether the unit's base frame decoded.
pub fn run_units_tagged<F>(run: &Run, leaves: &[LeafSpec], sweep: bool, pairs: bool, check: F) -> E1Stats
where
    F: Fn(&Case, bool, &mut Local) + Sync,
{
    let mut units: Vec<(usize, usize)> = vec![];
    let ctx56 = contexts(7, run.tier, run.seed);
    let ctx112 = contexts(14, run.tier, run.seed);
    for (li, l) in leaves.iter().enumerate() {
        let n = if l.nbits == 56 { ctx56.len() } else { ctx112.len() };
        for ci in 0..n {
            units.push((li, ci));
        }
    }
    let results: Vec<(u64, Local)> = units
        .par_iter()
        .map(|(li, ci)| {
            let leaf = &leaves[*li];
            let ctx = if leaf.nbits == 56 { &ctx56[*ci].1 } else { &ctx112[*ci].1 };
            // pairs only under the first three contexts; sweeps under all
            let cases = unit_cases_tagged(leaf, ctx, run.tier, sweep, pairs && *ci < 3);
            let mut loc = Local::default();
            let base_ok = matches!(decode(&cases[0].bytes), Decoded::Ok(_)) || ref_decode(&cases[0].bytes).map_or(true, |r| r.layout.may_reject);
            if !base_ok {
                loc.inc("units_with_undecodable_base");
            }
            for c in &cases {
                check(c, base_ok, &mut loc);
            }
            (cases.len() as u64, loc)
        })
        .collect();
    let mut total = 0;
    for (n, loc) in results {
        total += n;
        run.merge_counts(&loc.counts);
        run.merge_maxes(&loc.maxes);
        run.merge_outcomes(&loc.outcomes);
        for v in loc.viols {
            run.violation(v);
        }
    }
    run.add("cases", total);
    E1Stats { units: units.len() as u64, cases: total, leaves: leaves.len() as u64 }
}

/// The generic field oracle used by C04, C06, C08, C09, C10 (and C07 for the raw fields).
pub fn field_check(bytes: &[u8], props: &[u8], oracle: &str, loc: &mut Local) -> Option<(RefObs, Frame)> {
    field_check_owned(bytes, (255, 255), true, props, oracle, loc)
}

/// `owners`: properties owning the field(s) varied to produce this case (255 = attribute to this check).
/// A decode failure (Err / panic on a frame the reference accepts) is this property's violation only when
/// one of its own fields was varied and the unit's base frame decodes; otherwise it is C01's / C02's to report.
pub fn field_check_owned(bytes: &[u8], owners: (u8, u8), base_ok: bool, props: &[u8], oracle: &str, loc: &mut Local) -> Option<(RefObs, Frame)> {
    loc.inc("decodes");
    let r = match ref_decode(bytes) {
        Ok(r) => r,
        Err(_) => return None,
    };
    // every varied field must be this property's (0 = a field nobody judges): in a pair (own field, foreign field) the
    // failure may stem from the foreign field's value
    let own = |o: u8| o == 0 || props.contains(&o);
    let mine = base_ok && (owners.0 == 255 || ((props.contains(&owners.0) || props.contains(&owners.1)) && own(owners.0) && own(owners.1)));
    // an unexpected rejection / panic is ALSO this property's violation when the statement quantifies over every frame of
    // this leaf ("every altitude code in types 9-18 and 20-22 decodes ...", "for every airborne velocity report ..."):
    // that is the case for the payload properties C06-C10 on the leaves where they have a judged field. C04 speaks about
    // accepted frames only, so it keeps to the narrow rule.
    let leaf_owned = r.fields.iter().any(|f| f.def.prop != 4 && f.def.prop != 0 && f.def.kind != Kind::Opaque && props.contains(&f.def.prop));
    let mine_failure = mine || leaf_owned;
    match decode(bytes) {
        Decoded::Ok(frame) => {
            loc.inc("accepted");
            if df_code(&frame) != r.layout.df {
                if mine {
                    loc.viol(
                        oracle,
                        format!("{}:df", r.layout.leaf),
                        hex(bytes),
                        format!("DF{}", r.layout.df),
                        format!("DF{}", df_code(&frame)),
                    );
                }
                return None;
            }
            compare_fields(bytes, &r, &frame, props, loc, oracle);
            Some((r, frame))
        }
        Decoded::Err(e) => {
            if r.layout.may_reject {
                loc.inc("permitted_rejections");
            } else if mine_failure {
                loc.viol(oracle, format!("{}:rejected", r.layout.leaf), hex(bytes), "Ok(frame)".into(), format!("Err({e})"));
            } else {
                loc.inc("decode_failures_left_to_C01_C02");
            }
            None
        }
        Decoded::Panic(p) => {
            if mine_failure {
                loc.viol(oracle, format!("{}:panic", r.layout.leaf), hex(bytes), "Ok(frame)".into(), format!("panic: {p}"));
            } else {
                loc.inc("decode_failures_left_to_C01_C02");
            }
            None
        }
    }
}

pub fn e1_coverage(run: &Run, st: &E1Stats, rule: &str, exhaustive: bool) -> serde_json::Value {
    json!({
        "evaluations": run.get("cases") + run.get("extra_cases"),
        "distinct_nontrivial": run.get("accepted") + run.get("nontrivial_extra"),
        "rule": rule,
        "exhaustive": exhaustive,
        "leaves": st.leaves,
        "work_units": st.units,
    })
}

pub fn reject_name(r: &Reject) -> &'static str {
    match r {
        Reject::Format => "unsupported-format",
        Reject::Short => "too-short",
    }
}
