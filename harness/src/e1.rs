//! E1: input-lattice explorer. Enumerates, per dispatch leaf, bit-walks, complete field sweeps,
//! boundary pairs and contexts; every case is decoded once by the real code and compared with the
//! reference decoder.

use std::collections::{BTreeMap, BTreeSet};

use adsb_deku::Frame;
use rayon::prelude::*;
use serde_json::json;

use crate::bits::{flip_bit, fnv, hex, lfsr_bytes, set_bits};
use crate::common::{guarded, last_panic_loc, Run, Tier, Violation};
use crate::proj::{df_code, obs_get, project, Obs};
use crate::refdec::{layout, ref_decode, FieldDef, Kind, RefObs, Reject, V};

#[derive(Clone, Debug)]
pub struct LeafSpec {
    pub name: String,
    pub nbits: usize,
    /// (first bit, width, value) applied on top of every context
    pub fixed: Vec<(u16, u8, u64)>,
}

pub fn all_leaves() -> Vec<LeafSpec> {
    let mut v = vec![];
    let short = |df: u64| LeafSpec { name: format!("DF{df}"), nbits: 56, fixed: vec![(1, 5, df)] };
    for df in [0u64, 4, 5, 11] {
        v.push(short(df));
    }
    v.push(LeafSpec { name: "DF16".into(), nbits: 112, fixed: vec![(1, 5, 16)] });
    v.push(LeafSpec { name: "DF19".into(), nbits: 112, fixed: vec![(1, 5, 19)] });
    for df in [17u64, 18] {
        for tc in 0u64..32 {
            match tc {
                19 => {
                    for st in 0u64..8 {
                        v.push(LeafSpec {
                            name: format!("DF{df}/TC19/ST{st}"),
                            nbits: 112,
                            fixed: vec![(1, 5, df), (33, 5, tc), (38, 3, st)],
                        });
                    }
                }
                31 => {
                    for st in 0u64..8 {
                        let mut fixed = vec![(1, 5, df), (33, 5, tc), (38, 3, st)];
                        if st == 0 {
                            fixed.extend([(41, 2, 0), (45, 2, 0), (57, 2, 0)]);
                            for ver in 0u64..3 {
                                let mut fx = fixed.clone();
                                fx.push((73, 3, ver));
                                v.push(LeafSpec { name: format!("DF{df}/TC31/ST0/V{ver}"), nbits: 112, fixed: fx });
                            }
                        } else if st == 1 {
                            fixed.extend([(41, 2, 0), (57, 2, 0)]);
                            for ver in 0u64..3 {
                                let mut fx = fixed.clone();
                                fx.push((73, 3, ver));
                                v.push(LeafSpec { name: format!("DF{df}/TC31/ST1/V{ver}"), nbits: 112, fixed: fx });
                            }
                        } else {
                            v.push(LeafSpec { name: format!("DF{df}/TC31/ST{st}"), nbits: 112, fixed });
                        }
                    }
                }
                _ => v.push(LeafSpec {
                    name: format!("DF{df}/TC{tc}"),
                    nbits: 112,
                    fixed: vec![(1, 5, df), (33, 5, tc)],
                }),
            }
        }
    }
    for df in [20u64, 21] {
        for bds in [0x00u64, 0x10, 0x20, 0x30, 0x01, 0xff] {
            v.push(LeafSpec {
                name: format!("DF{df}/BDS{bds:02x}"),
                nbits: 112,
                fixed: vec![(1, 5, df), (33, 8, bds)],
            });
        }
    }
    for df in 24u64..32 {
        v.push(LeafSpec { name: format!("DF{df}"), nbits: 112, fixed: vec![(1, 5, df)] });
    }
    v
}

/// Context alphabet K (DESIGN 2.4): surroundings for the field under test.
pub fn contexts(nbytes: usize, tier: Tier, seed: u64) -> Vec<(&'static str, Vec<u8>)> {
    let mut k = vec![
        ("zeros", vec![0u8; nbytes]),
        ("ones", vec![0xffu8; nbytes]),
        ("0x55", vec![0x55u8; nbytes]),
        ("0xaa", vec![0xaau8; nbytes]),
        ("lfsr1", lfsr_bytes(0x1d2c ^ (seed as u16), nbytes)),
    ];
    if tier.thorough() {
        k.push(("lfsr2", lfsr_bytes(0x7a31 ^ (seed as u16).rotate_left(3), nbytes)));
        k.push(("lfsr3", lfsr_bytes(0xbeef ^ (seed as u16).rotate_left(7), nbytes)));
        k.push(("0x33", vec![0x33u8; nbytes]));
        k.push(("0xcc", vec![0xccu8; nbytes]));
    }
    k
}

pub fn boundary_values(width: u8) -> Vec<u64> {
    let w = u32::from(width);
    let max = if w >= 64 { u64::MAX } else { (1u64 << w) - 1 };
    let mut s: BTreeSet<u64> = BTreeSet::new();
    for v in [0u64, 1, 2, 3] {
        s.insert(v & max);
    }
    for d in 0..3u64 {
        s.insert(max - d.min(max));
    }
    for i in 0..w {
        s.insert(1u64 << i);
        s.insert((1u64 << i).wrapping_sub(1) & max);
        s.insert(((1u64 << i) + 1) & max);
    }
    s.insert(0x5555_5555_5555_5555 & max);
    s.insert(0xaaaa_aaaa_aaaa_aaaa & max);
    s.into_iter().collect()
}

pub fn sweep_values(width: u8, tier: Tier) -> Vec<u64> {
    let full_upto = if tier.thorough() { 17 } else { 13 };
    if width <= full_upto {
        (0..(1u64 << width)).collect()
    } else if width <= 17 {
        let mut s: BTreeSet<u64> = boundary_values(width).into_iter().collect();
        let mut v = 0u64;
        while v < (1u64 << width) {
            s.insert(v);
            v += 127;
        }
        s.into_iter().collect()
    } else {
        boundary_values(width)
    }
}

/// One work unit = one leaf under one context. Returns the de-duplicated case list.
pub fn unit_cases(leaf: &LeafSpec, ctx: &[u8], tier: Tier, sweep: bool, pairs: bool) -> Vec<Vec<u8>> {
    let mut base = ctx.to_vec();
    for (first, width, val) in &leaf.fixed {
        set_bits(&mut base, *first as usize, *width as usize, *val);
    }
    let mut out: Vec<Vec<u8>> = vec![base.clone()];
    let lay = match layout(&base) {
        Ok(l) => l,
        Err(_) => return out,
    };
    // bit-walk over non-dispatch bits
    for bit in 1..=leaf.nbits {
        if lay.dispatch.iter().any(|(f, w)| bit >= *f as usize && bit < (*f + u16::from(*w)) as usize) {
            continue;
        }
        let mut b = base.clone();
        flip_bit(&mut b, bit);
        out.push(b);
    }
    if sweep {
        for fd in &lay.fields {
            if fd.kind == Kind::Callsign {
                // eight 6-bit characters: every code at every position
                for pos in 0..8u16 {
                    for c in 0..64u64 {
                        let mut b = base.clone();
                        set_bits(&mut b, (fd.first + 6 * pos) as usize, 6, c);
                        out.push(b);
                    }
                }
                continue;
            }
            if lay.dispatch.iter().any(|(f, w)| *f == fd.first && *w == fd.width) && fd.first != 73 {
                continue;
            }
            for v in sweep_values(fd.width, tier) {
                let mut b = base.clone();
                set_bits(&mut b, fd.first as usize, fd.width as usize, v);
                out.push(b);
            }
        }
    }
    if pairs {
        let fs: Vec<&FieldDef> = lay.fields.iter().filter(|f| f.kind != Kind::Opaque).collect();
        for i in 0..fs.len() {
            for j in (i + 1)..fs.len() {
                let (a, b_) = (fs[i], fs[j]);
                let va = small_boundary(a.width);
                let vb = small_boundary(b_.width);
                for x in &va {
                    for y in &vb {
                        let mut b = base.clone();
                        set_bits(&mut b, a.first as usize, a.width as usize, *x);
                        set_bits(&mut b, b_.first as usize, b_.width as usize, *y);
                        // keep the dispatch path
                        for (first, width, val) in &leaf.fixed {
                            set_bits(&mut b, *first as usize, *width as usize, *val);
                        }
                        out.push(b);
                    }
                }
            }
        }
    }
    out.sort();
    out.dedup();
    out
}

fn small_boundary(width: u8) -> Vec<u64> {
    let max = (1u64 << width) - 1;
    let mut s: BTreeSet<u64> = [0u64, 1, max, max.saturating_sub(1), max / 2, max / 2 + 1, 0x5555_5555_5555 & max]
        .into_iter()
        .collect();
    s.insert(0xaaaa_aaaa_aaaa & max);
    s.into_iter().collect()
}

#[derive(Default)]
pub struct Local {
    pub counts: BTreeMap<&'static str, u64>,
    pub maxes: BTreeMap<&'static str, u64>,
    pub outcomes: BTreeSet<u64>,
    pub viols: Vec<Violation>,
}

impl Local {
    pub fn inc(&mut self, k: &'static str) {
        *self.counts.entry(k).or_insert(0) += 1;
    }
    pub fn viol(&mut self, oracle: &str, class: String, input: String, expected: String, observed: String) {
        self.viols.push(Violation { oracle: oracle.into(), class, input, expected, observed });
    }
}

pub enum Decoded {
    Ok(Frame),
    Err(String),
    Panic(String),
}

pub fn decode(bytes: &[u8]) -> Decoded {
    let b = bytes.to_vec();
    match guarded(move || Frame::from_bytes(&b)) {
        Ok(Ok(f)) => Decoded::Ok(f),
        Ok(Err(e)) => Decoded::Err(format!("{e:?}")),
        Err(p) => Decoded::Panic(format!("{p} @ {}", last_panic_loc())),
    }
}

/// Expected value with per-field adjustments where the subject's type folds several raw values.
fn expected_of(rf: &crate::refdec::RefField) -> V {
    if rf.def.name == "me.status.sub_type" && rf.raw >= 3 {
        return V::S("reserved".into());
    }
    if rf.def.name == "me.ops.st" && rf.raw >= 2 {
        return V::S("reserved".into());
    }
    rf.val.clone()
}

/// Does the observed ME variant correspond to type code `tc`?
pub fn tc_matches(obs: &Obs, tc: u64) -> bool {
    if let Some(V::U(class)) = obs_get(obs, "me.tc_class") {
        return match class {
            5 => (5..=8).contains(&tc),
            9 => (9..=18).contains(&tc),
            20 => (20..=22).contains(&tc),
            25 => (25..=27).contains(&tc),
            _ => false,
        } && obs_get(obs, "me.tc").map_or(true, |v| *v == V::U(tc));
    }
    obs_get(obs, "me.tc").map_or(false, |v| *v == V::U(tc))
}

/// Compare all reference fields owned by one of `props` with the projection of the real frame.
pub fn compare_fields(bytes: &[u8], r: &RefObs, frame: &Frame, props: &[u8], loc: &mut Local, oracle: &str) {
    let obs = project(frame);
    let leaf = &r.layout.leaf;
    for rf in &r.fields {
        if rf.def.kind == Kind::Opaque {
            continue;
        }
        let owned = props.contains(&rf.def.prop);
        let is_tc = rf.def.name == "me.tc";
        if is_tc {
            if props.contains(&10) {
                loc.inc("dispatch_checks");
                if !tc_matches(&obs, rf.raw) {
                    loc.viol(
                        oracle,
                        format!("{leaf}:me.variant"),
                        hex(bytes),
                        format!("variant of TC {}", rf.raw),
                        format!("{:?}", obs.iter().filter(|(n, _)| n.starts_with("me.tc")).collect::<Vec<_>>()),
                    );
                }
            }
            continue;
        }
        if !owned {
            continue;
        }
        loc.inc("field_comparisons");
        let exp = expected_of(rf);
        match obs_get(&obs, rf.def.name) {
            Some(v) if exp.accepts(v) => {
                loc.outcomes.insert(fnv(format!("{}={}", rf.def.name, v.show()).as_bytes()));
            }
            Some(v) => loc.viol(oracle, format!("{leaf}:{}", rf.def.name), hex(bytes), exp.show(), v.show()),
            None => loc.viol(oracle, format!("{leaf}:{}", rf.def.name), hex(bytes), exp.show(), "<field absent>".into()),
        }
    }
}

pub struct E1Stats {
    pub units: u64,
    pub cases: u64,
    pub leaves: u64,
}

/// Drive `check(bytes, local)` over every case of every selected leaf, in parallel by work unit.
pub fn run_units<F>(run: &Run, leaves: &[LeafSpec], sweep: bool, pairs: bool, check: F) -> E1Stats
where
    F: Fn(&[u8], &mut Local) + Sync,
{
    let mut units: Vec<(usize, usize)> = vec![];
    let ctx56 = contexts(7, run.tier, run.seed);
    let ctx112 = contexts(14, run.tier, run.seed);
    for (li, l) in leaves.iter().enumerate() {
        let n = if l.nbits == 56 { ctx56.len() } else { ctx112.len() };
        for ci in 0..n {
            units.push((li, ci));
        }
    }
    let results: Vec<(u64, Local)> = units
        .par_iter()
        .map(|(li, ci)| {
            let leaf = &leaves[*li];
            let ctx = if leaf.nbits == 56 { &ctx56[*ci].1 } else { &ctx112[*ci].1 };
            // pairs only under the first three contexts; sweeps under all
            let cases = unit_cases(leaf, ctx, run.tier, sweep, pairs && *ci < 3);
            let mut loc = Local::default();
            for c in &cases {
                check(c, &mut loc);
            }
            (cases.len() as u64, loc)
        })
        .collect();
    let mut total = 0;
    for (n, loc) in results {
        total += n;
        run.merge_counts(&loc.counts);
        run.merge_maxes(&loc.maxes);
        run.merge_outcomes(&loc.outcomes);
        for v in loc.viols {
            run.violation(v);
        }
    }
    run.add("cases", total);
    E1Stats { units: units.len() as u64, cases: total, leaves: leaves.len() as u64 }
}

/// The generic field oracle used by C04, C06, C08, C09, C10 (and C07 for the raw fields).
pub fn field_check(bytes: &[u8], props: &[u8], oracle: &str, loc: &mut Local) -> Option<(RefObs, Frame)> {
    loc.inc("decodes");
    let r = match ref_decode(bytes) {
        Ok(r) => r,
        Err(_) => return None,
    };
    match decode(bytes) {
        Decoded::Ok(frame) => {
            loc.inc("accepted");
            if df_code(&frame) != r.layout.df {
                loc.viol(
                    oracle,
                    format!("{}:df", r.layout.leaf),
                    hex(bytes),
                    format!("DF{}", r.layout.df),
                    format!("DF{}", df_code(&frame)),
                );
                return None;
            }
            compare_fields(bytes, &r, &frame, props, loc, oracle);
            Some((r, frame))
        }
        Decoded::Err(e) => {
            if !r.layout.may_reject {
                loc.viol(oracle, format!("{}:rejected", r.layout.leaf), hex(bytes), "Ok(frame)".into(), format!("Err({e})"));
            } else {
                loc.inc("permitted_rejections");
            }
            None
        }
        Decoded::Panic(p) => {
            loc.viol(oracle, format!("{}:panic", r.layout.leaf), hex(bytes), "Ok(frame)".into(), format!("panic: {p}"));
            None
        }
    }
}

pub fn e1_coverage(run: &Run, st: &E1Stats, rule: &str, exhaustive: bool) -> serde_json::Value {
    json!({
        "evaluations": run.get("cases") + run.get("extra_cases"),
        "distinct_nontrivial": run.get("accepted") + run.get("nontrivial_extra"),
        "rule": rule,
        "exhaustive": exhaustive,
        "leaves": st.leaves,
        "work_units": st.units,
    })
}

pub fn reject_name(r: &Reject) -> &'static str {
    match r {
        Reject::Format => "unsupported-format",
        Reject::Short => "too-short",
    }
}
