//! C03: the checksum is the Mode S parity syndrome.
//! (1) complete transition relation of the table-driven automaton through the hook;
//! (2) Frame.crc on every dispatch path (seek pattern) and on valid-parity frames;
//! (3) error detection: weight <= 5 and bursts <= 24.

use adsb_deku::verif_hooks as hooks;
use rayon::prelude::*;
use serde_json::json;
use std::sync::atomic::{AtomicU64, Ordering};

use crate::bits::{flip_bit, hex, syndrome, GEN};
use crate::common::{Run, Tier, Violation};
use crate::e1::{all_leaves, decode, run_units, Decoded, Local};
use crate::enc;
use crate::refdec::layout;

/// advance a 24-bit remainder by one byte of message (8 bit-serial steps): rem(P*x^8 + b*x^24 ...)
/// state = rem(P * x^24); next = rem((P*x^8 + byte) * x^24)
fn ref_step(state: u32, byte: u8) -> u32 {
    let mut s = state ^ (u32::from(byte) << 16);
    for _ in 0..8 {
        s <<= 1;
        if s & (1 << 24) != 0 {
            s ^= GEN;
        }
    }
    s & 0xff_ffff
}

fn viol(run: &Run, oracle: &str, class: &str, input: String, expected: String, observed: String) {
    run.violation(Violation { oracle: oracle.into(), class: class.into(), input, expected, observed });
}

fn automaton(run: &Run, tier: Tier) -> (u64, u64) {
    // table entries
    let table = hooks::crc_table();
    for b in 0u32..256 {
        let want = ref_step(0, b as u8); // rem(b * x^24)
        // only the low 24 bits of an entry can reach the result (the loop masks after every step)
        if table[b as usize] & 0xff_ffff != want {
            viol(run, "crc-table", "table-entry", format!("{b:02x}"), format!("{want:06x}"), format!("{:06x}", table[b as usize]));
        }
    }
    run.add("table_entries", 256);
    // transitions: message [p0,p1,p2,b,0,0,0], bits=56 -> state after four bytes
    let prefixes: u32 = if tier.thorough() { 1 << 24 } else { 1 << 20 };
    let bad = AtomicU64::new(0);
    let seen_states: Vec<AtomicU64> = (0..(1usize << 18)).map(|_| AtomicU64::new(0)).collect();
    (0..prefixes).into_par_iter().for_each(|p| {
        // quick: two leading bytes (states reachable in two bytes), third byte 0
        // quick: all two-byte prefixes x 16 values of the third byte (its high nibble)
        let (p0, p1, p2) = if tier.thorough() { ((p >> 16) as u8, (p >> 8) as u8, p as u8) } else { ((p >> 12) as u8, (p >> 4) as u8, ((p & 0xf) << 4) as u8) };
        let s3 = ref_step(ref_step(ref_step(0, p0), p1), p2);
        // the implementation's state after three bytes, read out with bits = 48
        let got3 = hooks::modes_checksum(&[p0, p1, p2, 0, 0, 0], 48);
        if got3 != Some(s3) {
            if bad.fetch_add(1, Ordering::Relaxed) < 20 {
                viol(run, "crc-automaton", "state", hex(&[p0, p1, p2, 0, 0, 0]), format!("{s3:06x}"), format!("{got3:x?}"));
            }
        }
        seen_states[(s3 >> 6) as usize].fetch_or(1u64 << (s3 & 63), Ordering::Relaxed);
        let mut msg = [p0, p1, p2, 0u8, 0, 0, 0];
        for b in 0u32..256 {
            msg[3] = b as u8;
            let want = ref_step(s3, b as u8);
            let got = hooks::modes_checksum(&msg, 56);
            if got != Some(want) {
                if bad.fetch_add(1, Ordering::Relaxed) < 20 {
                    viol(run, "crc-automaton", "transition", hex(&msg), format!("{want:06x}"), format!("{got:x?}"));
                }
            }
        }
    });
    let states: u64 = seen_states.iter().map(|w| u64::from(w.load(Ordering::Relaxed).count_ones())).sum();
    let transitions = u64::from(prefixes) * 256;
    run.add("automaton_states", states);
    run.add("automaton_transitions", transitions);
    if tier.thorough() && states != 1 << 24 {
        run.note(format!("automaton sweep reached {states} of 2^24 states"));
    }
    // trailer XOR: all 2^24 trailers for 4 prefixes (thorough) / 2^16 (quick)
    let ntr: u32 = if tier.thorough() { 1 << 24 } else { 1 << 16 };
    for pre in [[0u8, 0, 0, 0], [0xff, 0xff, 0xff, 0xff], [0x8d, 0x40, 0x62, 0x1d], [0x5d, 0xab, 0x3d, 0x17]] {
        let base = ref_step(ref_step(ref_step(ref_step(0, pre[0]), pre[1]), pre[2]), pre[3]);
        (0..ntr).into_par_iter().for_each(|t| {
            let t = if tier.thorough() { t } else { t.wrapping_mul(257) & 0xff_ffff };
            let msg = [pre[0], pre[1], pre[2], pre[3], (t >> 16) as u8, (t >> 8) as u8, t as u8];
            let got = hooks::modes_checksum(&msg, 56);
            if got != Some(base ^ t) {
                if bad.fetch_add(1, Ordering::Relaxed) < 20 {
                    viol(run, "crc-automaton", "trailer", hex(&msg), format!("{:06x}", base ^ t), format!("{got:x?}"));
                }
            }
        });
        run.add("trailer_cases", u64::from(ntr));
    }
    // n = 7 and n = 14: every byte value at every position, every pair of bit flips, vs bit-serial syndrome
    for n in [7usize, 14] {
        for ctx in [0x00u8, 0xff, 0xa5] {
            let base = vec![ctx; n];
            for pos in 0..n {
                for v in 0u32..256 {
                    let mut m = base.clone();
                    m[pos] = v as u8;
                    let want = syndrome(&m, n * 8);
                    let got = hooks::modes_checksum(&m, n * 8);
                    run.add("byte_position_cases", 1);
                    if got != Some(want) {
                        viol(run, "crc-function", "byte-position", hex(&m), format!("{want:06x}"), format!("{got:x?}"));
                    }
                }
            }
            for i in 1..=n * 8 {
                for j in (i + 1)..=n * 8 {
                    let mut m = base.clone();
                    flip_bit(&mut m, i);
                    flip_bit(&mut m, j);
                    let want = syndrome(&m, n * 8);
                    let got = hooks::modes_checksum(&m, n * 8);
                    run.add("bit_pair_cases", 1);
                    if got != Some(want) {
                        viol(run, "crc-function", "bit-pair", hex(&m), format!("{want:06x}"), format!("{got:x?}"));
                    }
                }
            }
        }
        // length guard: shorter buffers must be refused
        for len in 0..n {
            let m = vec![0x5au8; len];
            if hooks::modes_checksum(&m, n * 8).is_some() {
                viol(run, "crc-function", "length-guard", hex(&m), "None (buffer shorter than bits/8)".into(), "Some".into());
            }
        }
    }
    (states, transitions)
}

/// Valid frames of every parity discipline through the public API.
fn valid_frames(run: &Run) {
    let addrs: Vec<u32> = {
        let mut a = vec![0u32, 1, 0x100, 0x010000, 0xabcdef, 0xffffff, 0x555555, 0xaaaaaa, 0x800000, 0x7fffff];
        for i in 0..24 {
            a.push(1 << i);
        }
        a
    };
    let mut check = |bytes: Vec<u8>, want: u32, class: &str| {
        run.add("valid_frame_cases", 1);
        match decode(&bytes) {
            Decoded::Ok(f) => {
                if f.crc != want {
                    viol(run, "crc-valid-frame", class, hex(&bytes), format!("{want:06x}"), format!("{:06x}", f.crc));
                }
            }
            Decoded::Err(e) => viol(run, "crc-valid-frame", class, hex(&bytes), "Ok".into(), format!("Err({e})")),
            Decoded::Panic(_) => run.add("panics_left_to_C01", 1),
        }
    };
    for &a in &addrs {
        // DF17/18 squitters of several payload types: syndrome 0
        for df in [17u64, 18] {
            for me in [
                enc::me_ident(4, 0, "TEST1234"),
                enc::me_pos_latlon(11, 38000, false, 52.25, 3.91),
                enc::me_pos_latlon(11, 38000, true, 52.25, 3.91),
                enc::me_vel_kt(-120, 300, -640),
                28u64 << 51 | 1 << 48 | 0x1234 << 29,
                29u64 << 51 | 0x2aaaaaaaaaaaa >> 2,
                31u64 << 51,
                0u64,
                23u64 << 51 | 0xffff,
            ] {
                check(enc::es_frame(df, 5, a, me), 0, "DF17/18 syndrome 0");
            }
        }
        // DF11: all 128 interrogator codes
        for ic in 0u32..128 {
            check(enc::df11_frame(5, a, ic), ic, "DF11 interrogator code");
        }
        // address/parity formats
        for payload in [0u64, 0x2aaaaaa, 0x7ffffff, 0x1234567] {
            for df in [0u64, 4, 5] {
                check(enc::short_reply(df, payload, a), a, "DF0/4/5 address");
            }
            for df in [16u64, 20, 21] {
                for mb in [0u64, 0x20_0420_c4_1234_56, 0x10_0000_0000_0000, 0xff_ffff_ffff_ffff, 0x30_1234_5678_9abc] {
                    check(enc::long_reply(df, payload, mb, a), a, "DF16/20/21 address");
                }
            }
        }
    }
}

fn base_squitters() -> Vec<Vec<u8>> {
    vec![
        enc::es_frame(17, 5, 0x40621d, enc::me_pos_latlon(11, 38000, false, 52.2572, 3.9194)),
        enc::es_frame(17, 5, 0xabcdef, enc::me_ident(4, 0, "KLM1023 ")),
        enc::es_frame(17, 5, 0x000001, enc::me_vel_kt(-120, 300, -640)),
        enc::es_frame(18, 2, 0xffffff, enc::me_pos_latlon(12, 2000, true, -33.9, 151.2)),
        enc::es_frame(17, 0, 0x555555, 28u64 << 51 | 1 << 48 | 0x0aaa << 29),
        enc::es_frame(18, 6, 0x800000, 31u64 << 51 | 2 << 13),
        enc::es_frame(17, 7, 0xa5a5a5, 29u64 << 51 | 1 << 49),
        enc::es_frame(17, 5, 0x123456, 0),
    ]
}

/// enumerate all k-subsets of 1..=n (lexicographic), calling f with the positions
fn for_each_subset(n: usize, k: usize, f: &mut dyn FnMut(&[usize])) {
    let mut idx: Vec<usize> = (1..=k).collect();
    if k == 0 || k > n {
        return;
    }
    loop {
        f(&idx);
        let mut i = k;
        while i > 0 && idx[i - 1] == n - k + i {
            i -= 1;
        }
        if i == 0 {
            break;
        }
        idx[i - 1] += 1;
        for j in i..k {
            idx[j] = idx[j - 1] + 1;
        }
    }
}

fn error_detection(run: &Run, tier: Tier) {
    let bases = base_squitters();
    for b in &bases {
        assert_eq!(syndrome(b, 112), 0);
    }
    // (a) through the hook: all patterns of weight <= W on 112 bits (and 56 bits, DF11 with IC 0)
    let w_hook = if tier.thorough() { 5 } else { 4 };
    let mut frames: Vec<(Vec<u8>, usize)> = vec![(bases[0].clone(), 112), (enc::df11_frame(5, 0x40621d, 0), 56)];
    if tier.thorough() {
        frames.push((bases[1].clone(), 112));
    }
    for (base, nbits) in &frames {
        for w in 1..=w_hook {
            // parallelise over the first position
            let cnt = AtomicU64::new(0);
            (1..=*nbits).into_par_iter().for_each(|first| {
                let rest = *nbits - first;
                let mut local = 0u64;
                let mut run_one = |pos: &[usize]| {
                    let mut m = base.clone();
                    flip_bit(&mut m, first);
                    for p in pos {
                        flip_bit(&mut m, first + *p);
                    }
                    local += 1;
                    if hooks::modes_checksum(&m, *nbits) == Some(0) {
                        viol(run, "error-detection", &format!("weight-{w}-hook"), hex(&m), "syndrome != 0".into(), "0".into());
                    }
                };
                if w == 1 {
                    run_one(&[]);
                } else {
                    for_each_subset(rest, w - 1, &mut run_one);
                }
                cnt.fetch_add(local, Ordering::Relaxed);
            });
            run.add("error_patterns_hook", cnt.load(Ordering::Relaxed));
        }
        // bursts: every length L <= Lmax, every offset, every interior pattern with both end bits set
        let lmax = if tier.thorough() { 24 } else { 16 };
        let cnt = AtomicU64::new(0);
        let jobs: Vec<(usize, usize)> = (1..=lmax).flat_map(|l| (1..=(*nbits + 1 - l)).map(move |off| (l, off))).collect();
        jobs.par_iter().for_each(|(l, off)| {
            let (l, off) = (*l, *off);
            let interior = l.saturating_sub(2);
            let mut local = 0u64;
            for pat in 0u32..(1u32 << interior) {
                let mut m = base.clone();
                flip_bit(&mut m, off);
                if l > 1 {
                    flip_bit(&mut m, off + l - 1);
                }
                for i in 0..interior {
                    if (pat >> i) & 1 == 1 {
                        flip_bit(&mut m, off + 1 + i);
                    }
                }
                local += 1;
                if hooks::modes_checksum(&m, *nbits) == Some(0) {
                    viol(run, "error-detection", &format!("burst-{l}-hook"), hex(&m), "syndrome != 0".into(), "0".into());
                }
            }
            cnt.fetch_add(local, Ordering::Relaxed);
        });
        run.add("burst_patterns_hook", cnt.load(Ordering::Relaxed));
    }
    // (b) through Frame::from_bytes (the observable): weight <= 3 (thorough) / 2 (quick) and bursts <= 12 / 8
    // on every base squitter. A corruption that changes the format to a 56-bit one is outside the code's
    // distance guarantee (different length) and is skipped, counted as format_changed.
    let w_api: usize = if tier.thorough() { 3 } else { 2 };
    let l_api: usize = if tier.thorough() { 12 } else { 8 };
    bases.par_iter().for_each(|base| {
        let mut patterns: Vec<Vec<usize>> = vec![];
        for w in 1..=w_api {
            for_each_subset(112, w, &mut |p| patterns.push(p.to_vec()));
        }
        for l in 1..=l_api {
            let interior = l.saturating_sub(2);
            for off in 1..=(113 - l) {
                for pat in 0u32..(1u32 << interior) {
                    let mut p = vec![off];
                    for i in 0..interior {
                        if (pat >> i) & 1 == 1 {
                            p.push(off + 1 + i);
                        }
                    }
                    if l > 1 {
                        p.push(off + l - 1);
                    }
                    patterns.push(p);
                }
            }
        }
        let mut n = 0u64;
        let mut changed = 0u64;
        let mut rejected = 0u64;
        for p in &patterns {
            let mut m = base.clone();
            for b in p {
                flip_bit(&mut m, *b);
            }
            n += 1;
            match decode(&m) {
                Decoded::Ok(f) => {
                    let long = layout(&m).map(|l| l.nbits == 112).unwrap_or(false);
                    if !long {
                        changed += 1;
                    } else if f.crc == 0 {
                        viol(run, "error-detection", "api", hex(&m), "crc != 0 (or Err)".into(), format!("Ok crc=0 {:?}", f.df));
                    }
                }
                Decoded::Err(_) => rejected += 1,
                Decoded::Panic(_) => run.add("panics_left_to_C01", 1),
            }
        }
        run.add("error_patterns_api", n);
        run.add("error_patterns_api_format_changed", changed);
        run.add("error_patterns_api_rejected", rejected);
    });
}

pub fn run(tier: Tier) -> i32 {
    let run = Run::new("C03", tier);
    let (states, transitions) = automaton(&run, tier);
    // public API on every dispatch path / seek pattern
    let leaves = all_leaves();
    let st = run_units(&run, &leaves, false, false, |bytes, loc: &mut Local| {
        loc.inc("decodes");
        if let (Ok(lay), Decoded::Ok(f)) = (layout(bytes), decode(bytes)) {
            loc.inc("accepted");
            let want = syndrome(bytes, lay.nbits);
            if f.crc != want {
                loc.viol("crc-window", format!("{}:crc", lay.leaf), hex(bytes), format!("{want:06x}"), format!("{:06x}", f.crc));
            }
            loc.outcomes.insert(u64::from(f.crc));
            // the same bytes through a reader that hands out one byte per call (and one that gives two): the
            // window reconstructed from the reads must still be the first 7/14 bytes
            for short in [1usize, 2] {
                let script = vec![crate::e3::Ans::Short(short); 64];
                let b2 = bytes.to_vec();
                let got = crate::common::guarded(move || {
                    let mut r = crate::e3::Scripted::new(&b2, &script);
                    adsb_deku::Frame::from_reader(&mut r).map(|f| f.crc)
                });
                loc.inc("reader_fragment_cases");
                if let Ok(Ok(c)) = got {
                    if c != want {
                        loc.viol("crc-window", format!("{}:crc-fragmented-reader", lay.leaf), format!("frame={} script=S{short},S{short},...", hex(bytes)), format!("{want:06x}"), format!("{c:06x}"));
                    }
                }
            }
            // the frame read from a reader that is not at position 0 (a frame was decoded from the same reader
            // before, or the caller skipped a header): the window is the bytes read for THIS frame
            for skip in [1usize, 14] {
                let prefix = [0x8d, 0x40, 0x62, 0x1d, 0x58, 0xc3, 0x82, 0xd6, 0x90, 0xc8, 0xac, 0x28, 0x63, 0xa7][..skip].to_vec();
                let mut stream = prefix.clone();
                stream.extend_from_slice(bytes);
                let got = crate::common::guarded(move || {
                    let mut r = crate::e3::Scripted::new_at(&stream, skip, &[]);
                    adsb_deku::Frame::from_reader(&mut r).map(|f| f.crc)
                });
                loc.inc("reader_offset_cases");
                match got {
                    Ok(Ok(c)) if c == want => {}
                    Ok(Ok(c)) => loc.viol("crc-window", format!("{}:crc-reader-at-offset", lay.leaf), format!("frame={} prefix={} script=", hex(bytes), hex(&prefix)), format!("{want:06x}"), format!("{c:06x}")),
                    Ok(Err(e)) => loc.viol("crc-window", format!("{}:crc-reader-at-offset", lay.leaf), format!("frame={} prefix={} script=", hex(bytes), hex(&prefix)), format!("{want:06x}"), format!("Err({e})")),
                    Err(_) => {}
                }
            }
            // a transient Interrupted before any single read call must not change the window either
            // (on the first three cases of every work unit: the base frame and two bit flips)
            if loc.counts.get("interrupted_reader_cases").copied().unwrap_or(0) < 72
            {
                for at in 0..24usize {
                    let mut script = vec![crate::e3::Ans::Full; at];
                    script.push(crate::e3::Ans::Interrupted);
                    let b2 = bytes.to_vec();
                    let got = crate::common::guarded(move || {
                        let mut r = crate::e3::Scripted::new(&b2, &script);
                        adsb_deku::Frame::from_reader(&mut r).map(|f| f.crc)
                    });
                    loc.inc("interrupted_reader_cases");
                    if let Ok(Ok(c)) = got {
                        if c != want {
                            loc.viol("crc-window", format!("{}:crc-interrupted-reader", lay.leaf), format!("frame={} script={}I", hex(bytes), "F,".repeat(at)), format!("{want:06x}"), format!("{c:06x}"));
                        }
                    }
                }
            }
            // the same frame followed by garbage: window must stay the first 7/14 bytes
            let mut ext = bytes.to_vec();
            ext.extend_from_slice(&[0xde, 0xad, 0xbe, 0xef, 0x01]);
            if let Decoded::Ok(g) = decode(&ext) {
                if g.crc != want {
                    loc.viol("crc-window", format!("{}:crc-tail", lay.leaf), hex(&ext), format!("{want:06x}"), format!("{:06x}", g.crc));
                }
            }
        }
    });
    // a buffer shorter than its format has no 7/14-byte window: it must not be reported with a checksum at all
    {
        use crate::gen::contexts;
        let mut n = 0u64;
        for l in &leaves {
            for (_, c) in contexts(l.nbits / 8, tier, run.seed).into_iter().take(3) {
                let mut b = c.clone();
                for (f, w, v) in &l.fixed {
                    crate::bits::set_bits(&mut b, *f as usize, *w as usize, *v);
                }
                for len in 0..b.len() {
                    n += 1;
                    if let Decoded::Ok(f) = decode(&b[..len]) {
                        viol(&run, "crc-window", &format!("{}:checksum-of-truncated-buffer", l.name), hex(&b[..len]), "Err (no window of 7/14 bytes)".into(), format!("Ok crc={:06x}", f.crc));
                    }
                }
            }
        }
        run.add("truncated_buffer_cases", n);
    }
    valid_frames(&run);
    error_detection(&run, tier);
    run.sample(json!({"automaton": "messages [p0,p1,p2,b,0,0,0] for all prefixes and all b", "example": "8d40621d000000"}));
    run.sample(json!({"valid_frame": hex(&base_squitters()[0]), "expected_crc": 0}));
    run.sample(json!({"error_pattern": "flip bits {3, 57, 111} of the frame above", "expected": "crc != 0"}));
    let cov = json!({
        "states": states.max(1),
        "transitions": transitions,
        "traces_validated_against_impl": transitions,
        "evaluations": transitions + run.get("cases") + run.get("valid_frame_cases") + run.get("error_patterns_hook") + run.get("burst_patterns_hook") + run.get("error_patterns_api") + run.get("trailer_cases"),
        "distinct_nontrivial": transitions,
        "rule": "checksum automaton: every (24-bit remainder, byte) transition of the table-driven loop vs bit-serial division (thorough: all 2^24 x 256; quick: 2^20 three-byte prefixes x 256), all 256 table entries, trailer XOR, byte-position and bit-pair sweeps at n=7/14; Frame.crc on every dispatch leaf x context x bit-walk (+ garbage tail); valid-parity frames of every discipline; error patterns of weight <= 5/4 (hook) and <= 3/2 (API), bursts <= 24/16 (hook) and <= 12/8 (API)",
        "exhaustive": tier.thorough(),
        "leaves": st.leaves,
    });
    run.finish(
        "model_checking",
        cov,
        vec![
            "the table-driven loop is a fold of one transition function over the leading n-3 bytes (checked at n=7 and n=14 by byte-position and bit-pair sweeps); with the complete transition relation this lifts to all 2^56 / 2^112 frames by induction on length".into(),
            "the reference is bit-serial long division by 0x1FFF409".into(),
            "error patterns that turn a 112-bit format into a 56-bit one are outside the code's distance guarantee and are counted, not judged".into(),
        ],
    )
}
