//! R-enc: frame builders (inverse of R-frame) with valid Mode S parity.

use crate::bits::{set_bits, set_parity};
use crate::cprref;

/// 6-bit code of a character per Annex 10 Table 3-9; unknown characters map to 0.
pub fn char_code(c: char) -> u64 {
    match c {
        'A'..='Z' => (c as u64) - ('A' as u64) + 1,
        ' ' => 32,
        '0'..='9' => (c as u64) - ('0' as u64) + 48,
        _ => 0,
    }
}

pub fn callsign48(s: &str) -> u64 {
    let mut v = 0u64;
    let chars: Vec<char> = s.chars().collect();
    for i in 0..8 {
        let c = chars.get(i).copied().unwrap_or(' ');
        v = (v << 6) | char_code(c);
    }
    v
}

/// 12-bit altitude code with Q = 1 for a multiple of 25 ft in -1000..=50175.
pub fn ac12_q(alt_ft: i64) -> u64 {
    let n = ((alt_ft + 1000) / 25) as u64; // 11 bits
    ((n >> 4) << 5) | (1 << 4) | (n & 0xf)
}

/// 13-bit altitude code with Q = 1, M = 0.
pub fn ac13_q(alt_ft: i64) -> u64 {
    let n = ((alt_ft + 1000) / 25) as u64; // 11 bits: 6 | 1 | 4 around M and Q
    ((n >> 5) << 7) | (((n >> 4) & 1) << 5) | (1 << 4) | (n & 0xf)
}

pub fn me_ident(tc: u64, cat: u64, callsign: &str) -> u64 {
    (tc << 51) | (cat << 48) | callsign48(callsign)
}

#[allow(clippy::too_many_arguments)]
pub fn me_pos(tc: u64, ss: u64, saf: u64, ac12: u64, t: u64, odd: bool, yz: u32, xz: u32) -> u64 {
    (tc << 51) | (ss << 49) | (saf << 48) | (ac12 << 36) | (t << 35) | (u64::from(odd) << 34) | (u64::from(yz) << 17) | u64::from(xz)
}

pub fn me_pos_latlon(tc: u64, alt_ft: i64, odd: bool, lat: f64, lon: f64) -> u64 {
    let (yz, xz) = cprref::encode(lat, lon, odd);
    me_pos(tc, 0, 0, ac12_q(alt_ft), 0, odd, yz, xz)
}

/// Ground-speed velocity ME (subtype 1/2). Raw field values.
#[allow(clippy::too_many_arguments)]
pub fn me_vel_gs(st: u64, ew_sign: u64, ew_vel: u64, ns_sign: u64, ns_vel: u64, vr_src: u64, vr_sign: u64, vr: u64) -> u64 {
    (19u64 << 51) | (st << 48) | (ew_sign << 42) | (ew_vel << 32) | (ns_sign << 31) | (ns_vel << 21) | (vr_src << 20) | (vr_sign << 19) | (vr << 10)
}

/// Velocity from components in knots (subsonic) and vertical rate in ft/min.
pub fn me_vel_kt(east: i64, north: i64, vrate: i64) -> u64 {
    let (es, ev) = if east < 0 { (1, (-east) as u64 + 1) } else { (0, east as u64 + 1) };
    let (ns, nv) = if north < 0 { (1, (-north) as u64 + 1) } else { (0, north as u64 + 1) };
    let (vs, vv) = if vrate < 0 { (1, (-vrate / 64) as u64 + 1) } else { (0, (vrate / 64) as u64 + 1) };
    me_vel_gs(1, es, ev, ns, nv, 0, vs, vv)
}

/// DF17 / DF18 frame with valid parity (syndrome 0).
pub fn es_frame(df: u64, ca: u64, aa: u32, me: u64) -> Vec<u8> {
    let mut b = vec![0u8; 14];
    set_bits(&mut b, 1, 5, df);
    set_bits(&mut b, 6, 3, ca);
    set_bits(&mut b, 9, 24, u64::from(aa));
    set_bits(&mut b, 33, 56, me);
    set_parity(&mut b, 112, 0);
    b
}

/// DF18 frame whose PI field is forced to `pi` (invalid parity on purpose, to tell AA from PI).
pub fn df18_with_pi(cf: u64, aa: u32, me: u64, pi: u32) -> Vec<u8> {
    let mut b = es_frame(18, cf, aa, me);
    set_bits(&mut b, 89, 24, u64::from(pi));
    b
}

pub fn df11_frame(ca: u64, aa: u32, ic: u32) -> Vec<u8> {
    let mut b = vec![0u8; 7];
    set_bits(&mut b, 1, 5, 11);
    set_bits(&mut b, 6, 3, ca);
    set_bits(&mut b, 9, 24, u64::from(aa));
    set_parity(&mut b, 56, ic);
    b
}

/// Short surveillance reply (DF0/4/5) with the address overlaid on parity.
pub fn short_reply(df: u64, bits6_32: u64, addr: u32) -> Vec<u8> {
    let mut b = vec![0u8; 7];
    set_bits(&mut b, 1, 5, df);
    set_bits(&mut b, 6, 27, bits6_32);
    set_parity(&mut b, 56, addr);
    b
}

/// Long reply (DF16/20/21) with the address overlaid on parity.
pub fn long_reply(df: u64, bits6_32: u64, payload56: u64, addr: u32) -> Vec<u8> {
    let mut b = vec![0u8; 14];
    set_bits(&mut b, 1, 5, df);
    set_bits(&mut b, 6, 27, bits6_32);
    set_bits(&mut b, 33, 56, payload56);
    set_parity(&mut b, 112, addr);
    b
}

pub fn line(bytes: &[u8]) -> String {
    format!("*{};", crate::bits::hex(bytes))
}
