//! Bit-level helpers and the reference Mode S parity (R-crc). Bit numbers are 1-based from the
//! first transmitted bit, as in Annex 10.

/// Read `width` (<= 64) bits starting at 1-based bit `first`. Bits beyond the buffer read as 0.
pub fn get_bits(bytes: &[u8], first: usize, width: usize) -> u64 {
    let mut v = 0u64;
    for i in 0..width {
        let bit = first - 1 + i;
        let byte = bit / 8;
        let b = if byte < bytes.len() { (bytes[byte] >> (7 - (bit % 8))) & 1 } else { 0 };
        v = (v << 1) | u64::from(b);
    }
    v
}

/// Overwrite `width` bits at 1-based bit `first` with the low bits of `val`.
pub fn set_bits(bytes: &mut [u8], first: usize, width: usize, val: u64) {
    for i in 0..width {
        let bit = first - 1 + i;
        let byte = bit / 8;
        if byte >= bytes.len() {
            continue;
        }
        let b = ((val >> (width - 1 - i)) & 1) as u8;
        let mask = 1u8 << (7 - (bit % 8));
        if b == 1 {
            bytes[byte] |= mask;
        } else {
            bytes[byte] &= !mask;
        }
    }
}

pub fn flip_bit(bytes: &mut [u8], bit1: usize) {
    let bit = bit1 - 1;
    bytes[bit / 8] ^= 1u8 << (7 - (bit % 8));
}

/// Mode S generator polynomial, 25 bits.
pub const GEN: u32 = 0x1FF_F409;

/// R-crc: remainder of the first `nbits` bits of `bytes`, read as a polynomial over GF(2), modulo
/// the generator. Pure bit-serial long division, no table. By linearity this equals
/// rem(data * x^24) XOR (last 24 bits).
pub fn syndrome(bytes: &[u8], nbits: usize) -> u32 {
    let mut rem: u32 = 0;
    for i in 0..nbits {
        let b = (bytes[i / 8] >> (7 - (i % 8))) & 1;
        rem = (rem << 1) | u32::from(b);
        if rem & (1 << 24) != 0 {
            rem ^= GEN;
        }
    }
    rem
}

/// Overwrite the last 24 bits of the `nbits`-bit frame with parity so that the syndrome equals
/// `overlay` (0 for DF17/18, interrogator code for DF11, address for AP formats).
pub fn set_parity(bytes: &mut [u8], nbits: usize, overlay: u32) {
    let n = nbits / 8;
    bytes[n - 3] = 0;
    bytes[n - 2] = 0;
    bytes[n - 1] = 0;
    let s = syndrome(bytes, nbits) ^ overlay;
    bytes[n - 3] = (s >> 16) as u8;
    bytes[n - 2] = (s >> 8) as u8;
    bytes[n - 1] = s as u8;
}

pub fn hex(bytes: &[u8]) -> String {
    let mut s = String::with_capacity(bytes.len() * 2);
    for b in bytes {
        s.push_str(&format!("{b:02x}"));
    }
    s
}

pub fn unhex(s: &str) -> Vec<u8> {
    let s = s.trim();
    (0..s.len() / 2).map(|i| u8::from_str_radix(&s[2 * i..2 * i + 2], 16).unwrap()).collect()
}

/// 64-bit FNV-1a; stable across runs and platforms (used for case keys and digests).
pub fn fnv(data: &[u8]) -> u64 {
    let mut h: u64 = 0xcbf2_9ce4_8422_2325;
    for b in data {
        h ^= u64::from(*b);
        h = h.wrapping_mul(0x0000_0100_0000_01b3);
    }
    h
}

/// Deterministic 16-bit LFSR byte pattern (context alphabet).
pub fn lfsr_bytes(seed: u16, n: usize) -> Vec<u8> {
    let mut s = if seed == 0 { 0xACE1 } else { seed };
    let mut out = Vec::with_capacity(n);
    for _ in 0..n {
        let mut byte = 0u8;
        for _ in 0..8 {
            let bit = ((s >> 0) ^ (s >> 2) ^ (s >> 3) ^ (s >> 5)) & 1;
            s = (s >> 1) | (bit << 15);
            byte = (byte << 1) | (s & 1) as u8;
        }
        out.push(byte);
    }
    out
}

#[cfg(test)]
mod tests {
    use super::*;
    #[test]
    fn parity_of_known_squitter() {
        let b = unhex("8D40621D58C382D690C8AC2863A7");
        assert_eq!(syndrome(&b, 112), 0);
        let mut c = b.clone();
        set_parity(&mut c, 112, 0);
        assert_eq!(b, c);
    }
}
