//! Field-equality checks over the E1 lattice: C04, C06, C08, C09, C10.

use serde_json::json;

use crate::bits::{hex, unhex};
use crate::common::{Run, Tier};
use crate::e1::{all_leaves, decode, e1_coverage, field_check, field_check_owned, run_units_tagged, Case, Decoded, LeafSpec, Local};
use crate::proj::project;
use crate::refdec::ref_decode;

fn leaves_for(props: &[u8]) -> Vec<LeafSpec> {
    // a leaf is relevant if its layout owns at least one field of the requested properties
    all_leaves()
        .into_iter()
        .filter(|l| {
            let mut b = vec![0u8; l.nbits / 8];
            for (f, w, v) in &l.fixed {
                crate::bits::set_bits(&mut b, *f as usize, *w as usize, *v);
            }
            crate::refdec::layout(&b)
                .map(|lay| lay.fields.iter().any(|f| props.contains(&f.prop) || (props.contains(&10) && f.name == "me.tc")))
                .unwrap_or(false)
        })
        .collect()
}

pub fn assumptions() -> Vec<String> {
    vec![
        "reference layouts are DESIGN.md Appendix A (Annex 10 / DO-260B / ICAO 9871 as transcribed there), validated against the repository's pinned vectors".into(),
        "structural assumption: field readers consume a fixed number of bits and dispatch depends only on DF/TC/subtype/BDS id; probed by bit-walks under every context, not proved".into(),
        "fields wider than 17 bits are swept over a boundary alphabet and bit-walks only".into(),
    ]
}

pub fn generic(tier: Tier, prop: &str, props: &[u8]) -> i32 {
    let run = Run::new(prop, tier);
    let leaves = leaves_for(props);
    let st = run_units_tagged(&run, &leaves, true, true, |c: &Case, base_ok: bool, loc: &mut Local| {
        field_check_owned(&c.bytes, c.owners, base_ok, props, "fields", loc);
    });
    if prop == "C08" {
        callsign_pairs(&run, tier);
    }
    if prop == "C04" || prop == "C09" || prop == "C06" {
        // nothing extra
    }
    sample_cases(&run, &leaves);
    let cov = e1_coverage(
        &run,
        &st,
        "per dispatch leaf x context: base frame, single-bit flips of every non-dispatch bit, every value of every field (full domain up to 13 bits quick / 17 bits thorough, boundary+stride beyond), boundary pairs of all field pairs; a case is non-trivial when the real decoder accepted it and its fields were compared; distinct = de-duplicated within each (leaf, context) unit",
        true,
    );
    run.finish("exploration", cov, assumptions())
}

fn sample_cases(run: &Run, leaves: &[LeafSpec]) {
    for l in leaves.iter().take(4) {
        let mut b = vec![0x55u8; l.nbits / 8];
        for (f, w, v) in &l.fixed {
            crate::bits::set_bits(&mut b, *f as usize, *w as usize, *v);
        }
        let obs = match decode(&b) {
            Decoded::Ok(f) => format!("{:?}", project(&f)),
            Decoded::Err(e) => format!("Err({e})"),
            Decoded::Panic(p) => format!("panic {p}"),
        };
        run.sample(json!({"leaf": l.name, "input": hex(&b), "observed": obs}));
    }
}

pub fn c04(tier: Tier) -> i32 {
    let run = Run::new("C04", tier);
    let leaves = leaves_for(&[4]);
    let st = run_units_tagged(&run, &leaves, true, true, |c: &Case, base_ok: bool, loc: &mut Local| {
        field_check_owned(&c.bytes, c.owners, base_ok, &[4], "fields", loc);
    });
    sample_cases(&run, &leaves);
    // ICAO text round trip: all 2^24 addresses
    use rayon::prelude::*;
    let bad: Vec<(u32, String)> = (0u32..(1 << 24))
        .into_par_iter()
        .filter_map(|a| {
            let icao = adsb_deku::ICAO([(a >> 16) as u8, (a >> 8) as u8, a as u8]);
            let s = icao.to_string();
            let want = format!("{a:06x}");
            if s != want {
                return Some((a, format!("to_string={s}")));
            }
            match s.parse::<adsb_deku::ICAO>() {
                Ok(back) if back == icao => None,
                other => Some((a, format!("from_str={other:?}"))),
            }
        })
        .collect();
    run.add("extra_cases", 1 << 24);
    run.add("nontrivial_extra", 1 << 24);
    run.add("icao_text_round_trips", 1 << 24);
    for (a, obs) in bad.into_iter().take(50) {
        run.violation(crate::common::Violation {
            oracle: "icao-text".into(),
            class: "icao-text".into(),
            input: format!("{a:06x}"),
            expected: format!("{a:06x} and round trip"),
            observed: obs,
        });
    }
    let cov = e1_coverage(
        &run,
        &st,
        "every leaf of every supported DF x context: base, bit-walk, every value of every header field, address/trailing-field boundary alphabet, boundary pairs; plus all 2^24 addresses through ICAO Display/FromStr; non-trivial = accepted frame whose header/address/trailing fields were compared",
        true,
    );
    run.finish("exploration", cov, assumptions())
}

pub fn replay(path: &str) -> i32 {
    let text = std::fs::read_to_string(path).expect("cannot read replay file");
    let v: serde_json::Value = serde_json::from_str(&text).expect("replay file is not JSON");
    let input = v["input"].as_str().unwrap_or("");
    println!("property={} oracle={} class={}", v["property"], v["oracle"], v["class"]);
    println!("recorded expected={} observed={}", v["expected"], v["observed"]);
    if input.chars().all(|c| c.is_ascii_hexdigit()) && !input.is_empty() {
        let bytes = unhex(input);
        println!("input  {}", hex(&bytes));
        match ref_decode(&bytes) {
            Ok(r) => {
                println!("reference leaf {}", r.layout.leaf);
                for f in &r.fields {
                    println!("  ref {:<26} bits {:>3}+{:<2} = {}", f.def.name, f.def.first, f.def.width, f.val.show());
                }
            }
            Err(e) => println!("reference: reject ({e:?})"),
        }
        match decode(&bytes) {
            Decoded::Ok(f) => {
                println!("real: crc={:06x} {:?}", f.crc, f.df);
                for (n, v) in project(&f) {
                    println!("  real {:<25} = {}", n, v.show());
                }
            }
            Decoded::Err(e) => println!("real: Err({e})"),
            Decoded::Panic(p) => println!("real: PANIC {p}"),
        }
    } else if input.starts_with("frame=") {
        return crate::e3::replay(input);
    } else if input.starts_with("prop=") {
        return crate::e2::replay_history(input);
    } else {
        println!("(non-frame input: re-run the owning check to replay) input={input}");
    }
    0
}

/// C08: every pair of character positions x 64 x 64 codes, in both carriers (others 'A' / space).
fn callsign_pairs(run: &Run, tier: Tier) {
    use rayon::prelude::*;
    let carriers: Vec<(u64, u64)> = vec![(17, 4), (18, 1), (20, 0x20), (21, 0x20)];
    let jobs: Vec<(usize, u16, u16, u64)> = (0..carriers.len())
        .flat_map(|c| (0..8u16).flat_map(move |i| ((i + 1)..8u16).flat_map(move |j| [1u64, 32, 63, 0].into_iter().map(move |fill| (c, i, j, fill)))))
        .collect();
    let locs: Vec<Local> = jobs
        .par_iter()
        .map(|(c, i, j, fill)| {
            let mut loc = Local::default();
            let (df, sel) = carriers[*c];
            // fillers: 'A', space, and the unassigned codes 63 / 0 (all eight characters unassigned is one of the cases)
            if !tier.thorough() && *fill != 1 && (df == 18 || df == 20) {
                return loc;
            }
            let mut b = vec![0u8; 14];
            crate::bits::set_bits(&mut b, 1, 5, df);
            if df < 20 {
                crate::bits::set_bits(&mut b, 6, 3, 5);
                crate::bits::set_bits(&mut b, 9, 24, 0x4840d6);
                crate::bits::set_bits(&mut b, 33, 5, sel);
            } else {
                crate::bits::set_bits(&mut b, 33, 8, sel);
            }
            for k in 0..8u16 {
                crate::bits::set_bits(&mut b, (41 + 6 * k) as usize, 6, *fill);
            }
            for x in 0..64u64 {
                for y in 0..64u64 {
                    crate::bits::set_bits(&mut b, (41 + 6 * i) as usize, 6, x);
                    crate::bits::set_bits(&mut b, (41 + 6 * j) as usize, 6, y);
                    field_check(&b, &[8], "fields", &mut loc);
                }
            }
            loc
        })
        .collect();
    for loc in locs {
        run.add("extra_cases", loc.counts.get("decodes").copied().unwrap_or(0));
        run.add("nontrivial_extra", loc.counts.get("accepted").copied().unwrap_or(0));
        run.add("callsign_pair_cases", loc.counts.get("decodes").copied().unwrap_or(0));
        run.merge_outcomes(&loc.outcomes);
        for v in loc.viols {
            run.violation(v);
        }
    }
}
