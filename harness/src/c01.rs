//! C01: totality monitor. Every operation offered on bytes / frames runs inside catch_unwind, under
//! an allocation meter and a stall watchdog, over the union of the other decoder lattices plus
//! the complete space of short byte strings.

use std::alloc::{GlobalAlloc, Layout, System};
use std::cell::Cell;
use std::sync::atomic::{AtomicBool, AtomicU64, Ordering};
use std::sync::{Arc, Mutex};
use std::time::{Duration, Instant};

use adsb_deku::adsb::ME;
use adsb_deku::cpr::get_position;
use adsb_deku::{Altitude, CPRFormat, Frame, DF};
use rayon::prelude::*;
use rsadsb_common::Airplanes;
use serde_json::json;

use crate::bits::{flip_bit, hex, set_bits};
use crate::enc;
use crate::common::{guarded, last_panic_loc, Run, Tier, Violation};
use crate::e1::{all_leaves, contexts, e1_coverage, run_units, Local};

// ---------------------------------------------------------------- allocation meter
pub struct Meter;

thread_local! {
    static ALLOC_BYTES: Cell<u64> = const { Cell::new(0) };
    static ALLOC_MAX_ONE: Cell<u64> = const { Cell::new(0) };
}

unsafe impl GlobalAlloc for Meter {
    unsafe fn alloc(&self, l: Layout) -> *mut u8 {
        let _ = ALLOC_BYTES.try_with(|c| c.set(c.get() + l.size() as u64));
        let _ = ALLOC_MAX_ONE.try_with(|c| c.set(c.get().max(l.size() as u64)));
        System.alloc(l)
    }
    unsafe fn dealloc(&self, p: *mut u8, l: Layout) {
        System.dealloc(p, l)
    }
    unsafe fn realloc(&self, p: *mut u8, l: Layout, new: usize) -> *mut u8 {
        let _ = ALLOC_BYTES.try_with(|c| c.set(c.get() + new as u64));
        let _ = ALLOC_MAX_ONE.try_with(|c| c.set(c.get().max(new as u64)));
        System.realloc(p, l, new)
    }
}

fn meter_reset() {
    ALLOC_BYTES.with(|c| c.set(0));
    ALLOC_MAX_ONE.with(|c| c.set(0));
}
fn meter_read() -> (u64, u64) {
    (ALLOC_BYTES.with(|c| c.get()), ALLOC_MAX_ONE.with(|c| c.get()))
}

/// Total bytes requested from the allocator by one decode of <= 32 input bytes (sum over all
/// allocations, a generous over-approximation of peak memory). Measured maximum on the pinned
/// tree is about 350 bytes; the bound leaves a factor > 10.
const ALLOC_BOUND: u64 = 4 * 1024;

// ---------------------------------------------------------------- stall watchdog
struct Slot {
    beat: AtomicU64,
    busy: AtomicBool,
    case: Mutex<String>,
}

struct Watch {
    slots: Mutex<Vec<Arc<Slot>>>,
}

thread_local! {
    static MY_SLOT: std::cell::RefCell<Option<Arc<Slot>>> = const { std::cell::RefCell::new(None) };
}

static WATCH: std::sync::OnceLock<Watch> = std::sync::OnceLock::new();

fn slot() -> Arc<Slot> {
    MY_SLOT.with(|s| {
        let mut s = s.borrow_mut();
        if s.is_none() {
            let sl = Arc::new(Slot { beat: AtomicU64::new(0), busy: AtomicBool::new(false), case: Mutex::new(String::new()) });
            WATCH.get_or_init(|| Watch { slots: Mutex::new(vec![]) }).slots.lock().unwrap().push(sl.clone());
            *s = Some(sl);
        }
        s.as_ref().unwrap().clone()
    })
}

fn begin_case(desc: impl FnOnce() -> String, every: u64) {
    let s = slot();
    let b = s.beat.fetch_add(1, Ordering::Relaxed);
    if b % every == 0 {
        *s.case.lock().unwrap() = desc();
    }
    s.busy.store(true, Ordering::Relaxed);
}

fn end_cases() {
    slot().busy.store(false, Ordering::Relaxed);
}

fn start_watchdog(property: &'static str) {
    WATCH.get_or_init(|| Watch { slots: Mutex::new(vec![]) });
    std::thread::spawn(move || {
        let mut last: Vec<(u64, Instant)> = vec![];
        loop {
            std::thread::sleep(Duration::from_secs(2));
            let slots = WATCH.get().unwrap().slots.lock().unwrap().clone();
            last.resize(slots.len(), (u64::MAX, Instant::now()));
            for (i, s) in slots.iter().enumerate() {
                let b = s.beat.load(Ordering::Relaxed);
                if b != last[i].0 || !s.busy.load(Ordering::Relaxed) {
                    last[i] = (b, Instant::now());
                } else if last[i].1.elapsed() > Duration::from_secs(20) {
                    let case = s.case.lock().unwrap().clone();
                    let root = crate::common::verif_root();
                    let dir = root.join("replays").join(property);
                    std::fs::create_dir_all(&dir).ok();
                    let path = dir.join(format!("{:016x}.json", crate::bits::fnv(case.as_bytes())));
                    let rec = json!({"property": property, "oracle": "no-hang", "class": "stall", "input": case,
                        "expected": "operation completes", "observed": "no progress for 20 s (last recorded case of the stalled worker; the stalled case is at most 64 cases after it)"});
                    std::fs::write(&path, serde_json::to_string_pretty(&rec).unwrap()).ok();
                    println!("VIOLATION property={property} replay={}", path.display());
                    std::process::exit(1);
                }
            }
        }
    });
}

// ---------------------------------------------------------------- the operations
fn altitude_of(frame: &Frame) -> Option<Altitude> {
    let me = match &frame.df {
        DF::ADSB(a) => &a.me,
        DF::TisB { cf, .. } => &cf.me,
        _ => return None,
    };
    match me {
        ME::AirbornePositionBaroAltitude(a) | ME::AirbornePositionGNSSAltitude(a) => Some(*a),
        _ => None,
    }
}

const RECEIVERS: &[(f64, f64)] = &[(35.0, -80.0), (0.0, 0.0), (90.0, 0.0), (-90.0, 0.0), (0.0, 180.0), (0.0, -180.0), (89.9, 179.9)];

/// All operations on one byte string. Returns true when it decoded.
pub fn all_ops(bytes: &[u8], loc: &mut Local, full_tracker: bool) -> bool {
    loc.inc("decodes");
    let class_df = if bytes.is_empty() { "empty".to_string() } else { format!("DF{}", (bytes[0] >> 3) & 0x1f) };
    let b = bytes.to_vec();
    meter_reset();
    let r = guarded(move || Frame::from_bytes(&b));
    let (total, one) = meter_read();
    if total > ALLOC_BOUND {
        loc.viol(
            "allocation",
            format!("{class_df}:allocation"),
            hex(bytes),
            format!("<= {ALLOC_BOUND} bytes requested per decode"),
            format!("{total} bytes (largest single request {one})"),
        );
    }
    let mx = loc.maxes.entry("max_alloc_bytes_per_decode").or_insert(0);
    *mx = (*mx).max(total);
    let frame = match r {
        Err(p) => {
            loc.viol("no-panic", format!("{class_df}:decode-panic"), hex(bytes), "Ok or Err".into(), format!("panic: {p} @ {}", last_panic_loc()));
            return false;
        }
        Ok(Err(_)) => return false,
        Ok(Ok(f)) => f,
    };
    loc.inc("accepted");
    let mk = |f: &Frame| Frame { df: f.df.clone(), crc: f.crc };
    // rendering
    let f2 = mk(&frame);
    if let Err(p) = guarded(move || (f2.to_string(), format!("{f2:?}"))) {
        loc.viol("no-panic", format!("{class_df}:render-panic"), hex(bytes), "a string".into(), format!("panic: {p} @ {}", last_panic_loc()));
    }
    // velocity
    if let DF::ADSB(adsb_deku::adsb::ADSB { me: ME::AirborneVelocity(v), .. }) = &frame.df {
        let v = v.clone();
        if let Err(p) = guarded(move || v.calculate()) {
            loc.viol("no-panic", format!("{class_df}:calculate-panic"), hex(bytes), "Some or None".into(), format!("panic: {p} @ {}", last_panic_loc()));
        }
    }
    // tracker: fresh, and pre-loaded with the complementary parity report
    let receivers: &[(f64, f64)] = if full_tracker { RECEIVERS } else { &RECEIVERS[..2] };
    for rx in receivers {
        let f3 = mk(&frame);
        let rx = *rx;
        if let Err(p) = guarded(move || {
            let mut planes = Airplanes::new();
            planes.action(f3, rx, 500.0);
            let _ = planes.to_string();
        }) {
            loc.viol("no-panic", format!("{class_df}:tracker-panic"), hex(bytes), "Added".into(), format!("panic: {p} @ {} rx={rx:?}", last_panic_loc()));
        }
    }
    if altitude_of(&frame).is_some() && bytes.len() >= 14 {
        let mut other = bytes.to_vec();
        flip_bit(&mut other, 32 + 22);
        if let Ok(Ok(f_other)) = guarded(move || Frame::from_bytes(&other)) {
            loc.inc("paired_tracker_cases");
            for (rx, range) in [((35.0, -80.0), 500.0), ((0.0, 0.0), 1e9), ((89.9, 179.9), 0.001)] {
                let (fa, fb) = (mk(&f_other), mk(&frame));
                if let Err(p) = guarded(move || {
                    let mut planes = Airplanes::new();
                    planes.action(fa, rx, range);
                    planes.action(fb, rx, range);
                    let _ = planes.to_string();
                    let _ = planes.all_position();
                }) {
                    loc.viol("no-panic", format!("{class_df}:tracker-pair-panic"), hex(bytes), "Added".into(), format!("panic: {p} @ {}", last_panic_loc()));
                }
            }
        }
    }
    true
}

fn merge(run: &Run, locs: Vec<Local>, total_counter: &str) {
    for loc in locs {
        run.add(total_counter, loc.counts.get("decodes").copied().unwrap_or(0));
        let mut c = loc.counts.clone();
        run.merge_maxes(&loc.maxes);
        run.add("nontrivial_extra", c.remove("accepted").unwrap_or(0));
        run.merge_counts(&c);
        for v in loc.viols {
            run.violation(v);
        }
    }
}

/// a tracing subscriber that enables every level and formats every field, so that the arguments of every log statement
/// in the tracker are evaluated (radar enables logging; a panic inside a log argument is a panic of the operation)
struct EvalAll;
impl tracing::Subscriber for EvalAll {
    fn enabled(&self, _: &tracing::Metadata<'_>) -> bool {
        true
    }
    fn new_span(&self, _: &tracing::span::Attributes<'_>) -> tracing::span::Id {
        tracing::span::Id::from_u64(1)
    }
    fn record(&self, _: &tracing::span::Id, _: &tracing::span::Record<'_>) {}
    fn record_follows_from(&self, _: &tracing::span::Id, _: &tracing::span::Id) {}
    fn event(&self, event: &tracing::Event<'_>) {
        struct V(usize);
        impl tracing::field::Visit for V {
            fn record_debug(&mut self, _f: &tracing::field::Field, v: &dyn std::fmt::Debug) {
                self.0 += format!("{v:?}").len();
            }
        }
        let mut v = V(0);
        event.record(&mut v);
        std::hint::black_box(v.0);
    }
    fn enter(&self, _: &tracing::span::Id) {}
    fn exit(&self, _: &tracing::span::Id) {}
}

pub fn run(tier: Tier) -> i32 {
    let _ = tracing::subscriber::set_global_default(EvalAll);
    let run = Run::new("C01", tier);
    start_watchdog("C01");

    // (a) the union lattice of C02-C11: every leaf, every context, sweeps and pairs
    let leaves = all_leaves();
    let st = run_units(&run, &leaves, true, tier.thorough(), |b, loc: &mut Local| {
        begin_case(|| hex(b), 64);
        all_ops(b, loc, false);
    });
    // (b) all byte strings of length 0..=2 (quick) / 0..=3 (thorough); quick adds length 3 with a
    //     complete first byte and second/third bytes from the boundary alphabet
    let mut locs: Vec<Local> = (0u32..256)
        .into_par_iter()
        .map(|b0| {
            let mut loc = Local::default();
            let b0 = b0 as u8;
            if b0 == 0 {
                all_ops(&[], &mut loc, true);
            }
            all_ops(&[b0], &mut loc, true);
            for b1 in 0u32..256 {
                let b1 = b1 as u8;
                begin_case(|| hex(&[b0, b1]), 1);
                all_ops(&[b0, b1], &mut loc, false);
                if tier.thorough() {
                    for b2 in 0u32..256 {
                        all_ops(&[b0, b1, b2 as u8], &mut loc, false);
                    }
                } else {
                    for b2 in [0u8, 1, 0x7f, 0x80, 0xff, 0x55] {
                        all_ops(&[b0, b1, b2], &mut loc, false);
                    }
                }
            }
            end_cases();
            loc
        })
        .collect();
    // (c) 32 DF x lengths 4..=32 x contexts x bit-walk
    let ctxs = contexts(32, tier, run.seed);
    let jobs: Vec<(u64, usize)> = (0u64..32).flat_map(|df| (0..ctxs.len()).map(move |c| (df, c))).collect();
    locs.extend(
        jobs.par_iter()
            .map(|(df, c)| {
                let mut loc = Local::default();
                let mut base = ctxs[*c].1.clone();
                set_bits(&mut base, 1, 5, *df);
                for n in 4..=32usize {
                    begin_case(|| hex(&base[..n]), 1);
                    all_ops(&base[..n], &mut loc, true);
                    let walk = if tier.thorough() { n * 8 } else { (n * 8).min(120) };
                    for bit in 6..=walk {
                        let mut b = base[..n].to_vec();
                        flip_bit(&mut b, bit);
                        all_ops(&b, &mut loc, false);
                    }
                }
                end_cases();
                loc
            })
            .collect::<Vec<_>>(),
    );
    merge(&run, locs, "extra_cases");

    // (d) get_position on all ordered pairs of a report alphabet
    let vals: Vec<u32> = {
        let mut v = vec![0u32, 1, 2, 65535, 65536, 65537, 131070, 131071, 93000, 74158, 51372, 50194, 32768, 98304];
        if tier.thorough() {
            for i in 0..17 {
                v.push(1 << i);
                v.push((1u32 << i).wrapping_sub(1) & 0x1ffff);
            }
        }
        v.sort();
        v.dedup();
        v
    };
    let mut reports: Vec<Altitude> = vec![];
    for odd in [false, true] {
        for &la in &vals {
            for &lo in &vals {
                for alt in [None, Some(38000u16)] {
                    reports.push(Altitude {
                        odd_flag: if odd { CPRFormat::Odd } else { CPRFormat::Even },
                        lat_cpr: la,
                        lon_cpr: lo,
                        alt,
                        ..Altitude::default()
                    });
                }
            }
        }
    }
    // also out-of-range raw values (the fields are public u32)
    for odd in [false, true] {
        for (la, lo) in [(131072u32, 0u32), (u32::MAX, u32::MAX), (0, u32::MAX), (1 << 31, 5)] {
            reports.push(Altitude { odd_flag: if odd { CPRFormat::Odd } else { CPRFormat::Even }, lat_cpr: la, lon_cpr: lo, ..Altitude::default() });
        }
    }
    let pair_cases = AtomicU64::new(0);
    let pair_some = AtomicU64::new(0);
    reports.par_iter().for_each(|a| {
        let mut n = 0;
        let mut some = 0;
        for b in &reports {
            n += 1;
            let (a2, b2) = (*a, *b);
            match guarded(move || get_position((&a2, &b2))) {
                Ok(Some(p)) => {
                    some += 1;
                    if p.latitude.is_nan() || p.longitude.is_nan() {
                        run.violation(Violation {
                            oracle: "pairing".into(),
                            class: "pair-nan".into(),
                            input: format!("{a:?} / {b:?}"),
                            expected: "a position or None".into(),
                            observed: format!("{p:?}"),
                        });
                    }
                }
                Ok(None) => {}
                Err(p) => run.violation(Violation {
                    oracle: "no-panic".into(),
                    class: "pair-panic".into(),
                    input: format!("{a:?} / {b:?}"),
                    expected: "Some or None".into(),
                    observed: format!("panic: {p}"),
                }),
            }
        }
        pair_cases.fetch_add(n, Ordering::Relaxed);
        pair_some.fetch_add(some, Ordering::Relaxed);
    });
    run.add("position_pair_cases", pair_cases.load(Ordering::Relaxed));
    run.add("position_pairs_with_position", pair_some.load(Ordering::Relaxed));

    // (e) tracker under every receiver / range setting, two-report histories from a position alphabet
    let rx_all: Vec<(f64, f64)> = vec![
        (0.0, 0.0), (35.0, -80.0), (90.0, 0.0), (-90.0, 0.0), (0.0, 180.0), (0.0, -180.0), (89.9, 179.9),
        (f64::NAN, f64::NAN), (f64::INFINITY, 0.0), (1e308, -1e308), (0.0, f64::NEG_INFINITY),
    ];
    let ranges = [0.0, -1.0, 0.001, 500.0, 1e9, f64::INFINITY, f64::NAN];
    let pos: Vec<(f64, f64)> = vec![(35.1, -80.1), (35.1, -79.0), (89.95, 10.0), (-89.95, -170.0), (0.0, 179.999), (0.0, -180.0), (52.25, 3.9), (10.4704, 100.0)];
    let mut frames: Vec<Vec<u8>> = vec![];
    for (la, lo) in &pos {
        for odd in [false, true] {
            frames.push(crate::enc::es_frame(17, 5, 0xabcdef, crate::enc::me_pos_latlon(11, 10000, odd, *la, *lo)));
        }
    }
    frames.push(crate::enc::es_frame(17, 5, 0xabcdef, crate::enc::me_ident(4, 0, "TEST")));
    frames.push(crate::enc::es_frame(17, 5, 0xabcdef, crate::enc::me_vel_kt(100, -100, 640)));
    frames.push(crate::enc::es_frame(18, 2, 0xabcdef, crate::enc::me_pos_latlon(11, 10000, true, 35.1, -80.1)));
    let tr_cases = AtomicU64::new(0);
    let combos: Vec<(usize, usize)> = (0..rx_all.len()).flat_map(|r| (0..ranges.len()).map(move |m| (r, m))).collect();
    combos.par_iter().for_each(|(r, m)| {
        let (rx, range) = (rx_all[*r], ranges[*m]);
        let mut n = 0;
        for a in &frames {
            for b in &frames {
                for c in &frames[..4] {
                    n += 1;
                    let (a, b, c) = (a.clone(), b.clone(), c.clone());
                    let res = guarded(move || {
                        let mut planes = Airplanes::new();
                        for x in [a, b, c] {
                            if let Ok(f) = Frame::from_bytes(&x) {
                                planes.action(f, rx, range);
                            }
                        }
                        let _ = planes.to_string();
                        let _ = planes.all_position();
                        for k in planes.keys() {
                            let _ = planes.aircraft_details(*k);
                        }
                    });
                    if let Err(p) = res {
                        run.violation(Violation {
                            oracle: "no-panic".into(),
                            class: "tracker-panic".into(),
                            input: format!("rx={rx:?} range={range} frames=..."),
                            expected: "no panic".into(),
                            observed: format!("panic: {p} @ {}", last_panic_loc()),
                        });
                    }
                }
            }
        }
        tr_cases.fetch_add(n, Ordering::Relaxed);
    });
    run.add("tracker_histories", tr_cases.load(Ordering::Relaxed));

    // (e2) the receiver exactly at the antipode of the decoded position (the haversine term reaches, and through
    //      rounding exceeds, 1), and exactly at the position (distance 0), for a sweep of latitudes and altitudes
    //      (the odd report higher / lower than the even one), followed by a report far away (jump rejection path)
    {
        use rayon::prelude::*;
        let lats: Vec<f64> = (0..1200).map(|i| -89.0 + 178.0 * (i as f64) / 1199.0).collect();
        let n_ant = AtomicU64::new(0);
        lats.par_iter().for_each(|lat| {
            let lon = 13.7 + lat / 7.0;
            for (alt_e, alt_o) in [(10000i64, 10025i64), (10025, 10000)] {
                let even = enc::es_frame(17, 5, 0xabc001, enc::me_pos_latlon(11, alt_e, false, *lat, lon));
                let odd = enc::es_frame(17, 5, 0xabc001, enc::me_pos_latlon(11, alt_o, true, *lat, lon));
                let far = enc::es_frame(17, 5, 0xabc001, enc::me_pos_latlon(11, alt_o, true, (*lat + 3.0).clamp(-89.5, 89.5), lon + 2.5));
                let (Ok(fe), Ok(fo)) = (Frame::from_bytes(&even), Frame::from_bytes(&odd)) else { continue };
                let mut probe = Airplanes::new();
                probe.action(fe, (*lat, lon), 1.0e9);
                probe.action(fo, (*lat, lon), 1.0e9);
                let Some(p) = probe.all_position().first().map(|x| x.1) else { continue };
                let anti = (-p.latitude, if p.longitude > 0.0 { p.longitude - 180.0 } else { p.longitude + 180.0 });
                for rx in [anti, (p.latitude, p.longitude), (-p.latitude, p.longitude + 180.0)] {
                    n_ant.fetch_add(1, Ordering::Relaxed);
                    let (e2, o2, f2) = (even.clone(), odd.clone(), far.clone());
                    let res = guarded(move || {
                        let mut planes = Airplanes::new();
                        for x in [e2, o2, f2] {
                            if let Ok(f) = Frame::from_bytes(&x) {
                                planes.action(f, rx, 1.0e9);
                            }
                        }
                        let _ = planes.to_string();
                    });
                    if let Err(pn) = res {
                        run.violation(Violation {
                            oracle: "no-panic".into(),
                            class: "tracker-panic-antipode".into(),
                            input: format!("rx={rx:?} range=1e9 frames={} ; {} ; {}", hex(&even), hex(&odd), hex(&far)),
                            expected: "no panic".into(),
                            observed: format!("panic: {pn} @ {}", last_panic_loc()),
                        });
                    }
                }
            }
        });
        run.add("antipode_receiver_histories", n_ant.load(Ordering::Relaxed));
    }

    // (f) identification payloads: uniform strings of every code, and every pair of positions x boundary codes over
    //     fillers {space, 0, 63} in all four carriers (a trim / filter that indexes an emptied buffer shows only here)
    {
        let carriers: Vec<(u64, u64)> = vec![(17, 4), (18, 1), (20, 0x20), (21, 0x20)];
        let codes: [u64; 10] = [0, 1, 26, 27, 31, 32, 33, 48, 57, 63];
        let locs: Vec<Local> = carriers
            .par_iter()
            .map(|(df, sel)| {
                let mut loc = Local::default();
                let mut b = vec![0u8; 14];
                set_bits(&mut b, 1, 5, *df);
                if *df < 20 {
                    set_bits(&mut b, 6, 3, 5);
                    set_bits(&mut b, 9, 24, 0xa1b2c3);
                    set_bits(&mut b, 33, 5, *sel);
                } else {
                    set_bits(&mut b, 33, 8, *sel);
                }
                for c in 0u64..64 {
                    for k in 0..8usize {
                        set_bits(&mut b, 41 + 6 * k, 6, c);
                    }
                    all_ops(&b, &mut loc, false);
                }
                for fill in [32u64, 0, 63] {
                    for i in 0..8usize {
                        for j in (i + 1)..8 {
                            for x in codes {
                                for y in codes {
                                    for k in 0..8usize {
                                        set_bits(&mut b, 41 + 6 * k, 6, fill);
                                    }
                                    set_bits(&mut b, 41 + 6 * i, 6, x);
                                    set_bits(&mut b, 41 + 6 * j, 6, y);
                                    all_ops(&b, &mut loc, false);
                                }
                            }
                        }
                    }
                }
                loc
            })
            .collect();
        merge(&run, locs, "extra_cases");
    }

    // (g) long histories: every periodic word of period <= 2 over a position / identification / velocity alphabet,
    //     repeated 3000 (quick 1500) times on one tracker (capacity, wrap-around and accumulation defects)
    {
        use crate::alpha::{alphabet_c13_deep, alphabet_c14, Ev};
        let rx = (35.0, -80.0);
        let mut alpha: Vec<Ev> = alphabet_c13_deep(rx, 2000.0);
        alpha.extend(alphabet_c14(rx).into_iter().take(6));
        let n = alpha.len();
        let len = if tier.thorough() { 3000 } else { 1500 };
        let mut words: Vec<Vec<usize>> = (0..n).map(|a| vec![a]).collect();
        for a in 0..n {
            for b2 in 0..n {
                if a != b2 {
                    words.push(vec![a, b2]);
                }
            }
        }
        let steps = AtomicU64::new(0);
        words.par_iter().for_each(|w| {
            let frames: Vec<Vec<u8>> = w
                .iter()
                .map(|i| match &alpha[*i] {
                    Ev::Frame { bytes, .. } => bytes.clone(),
                    _ => vec![],
                })
                .collect();
            let res = guarded(move || {
                let mut planes = Airplanes::new();
                for i in 0..len {
                    if let Ok(f) = Frame::from_bytes(&frames[i % frames.len()]) {
                        planes.action(f, rx, 2000.0);
                    }
                    if i % 500 == 499 {
                        let _ = planes.to_string();
                    }
                }
                planes.len()
            });
            steps.fetch_add(len as u64, Ordering::Relaxed);
            if let Err(p) = res {
                let names: Vec<String> = w.iter().map(|i| alpha[*i].name()).collect();
                run.violation(Violation {
                    oracle: "no-panic".into(),
                    class: "tracker-long-history-panic".into(),
                    input: format!("periodic word [{}] repeated up to {len} events, rx={rx:?} range=2000", names.join(" ; ")),
                    expected: "no panic".into(),
                    observed: format!("panic: {p} @ {}", last_panic_loc()),
                });
            }
        });
        run.add("long_history_events", steps.load(Ordering::Relaxed));

        // (g2) very long histories from ONE address: every single letter and the all-letters round robin, repeated
        //      past 2^16 (quick: 70 000) / 2^18 (thorough: 270 000) events on one tracker - per-aircraft counters
        //      and accumulators narrower than the feed is long (round 7: message counter narrowed to u16)
        let vlen: usize = if tier.thorough() { 270_000 } else { 70_000 };
        let mut vwords: Vec<Vec<usize>> = (0..n).map(|a| vec![a]).collect();
        vwords.push((0..n).collect());
        let vsteps = AtomicU64::new(0);
        vwords.par_iter().for_each(|w| {
            let frames: Vec<Vec<u8>> = w
                .iter()
                .map(|i| match &alpha[*i] {
                    Ev::Frame { bytes, .. } => bytes.clone(),
                    _ => vec![],
                })
                .collect();
            let res = guarded(move || {
                let mut planes = Airplanes::new();
                let mut fed = 0u64;
                for i in 0..vlen {
                    if let Ok(f) = Frame::from_bytes(&frames[i % frames.len()]) {
                        planes.action(f, rx, 2000.0);
                        fed += 1;
                    }
                }
                let _ = planes.to_string();
                fed
            });
            vsteps.fetch_add(vlen as u64, Ordering::Relaxed);
            if let Err(p) = res {
                let names: Vec<String> = w.iter().map(|i| alpha[*i].name()).collect();
                run.violation(Violation {
                    oracle: "no-panic".into(),
                    class: "tracker-very-long-history-panic".into(),
                    input: format!("periodic word [{}] repeated up to {vlen} events, rx={rx:?} range=2000", names.join(" ; ")),
                    expected: "no panic".into(),
                    observed: format!("panic: {p} @ {}", last_panic_loc()),
                });
            }
        });
        run.add("very_long_history_events", vsteps.load(Ordering::Relaxed));
    }

    run.sample(json!({"bytes": "", "ops": ["from_bytes"]}));
    run.sample(json!({"bytes": "8d40621d58c382d690c8ac2863a7", "ops": ["from_bytes", "to_string", "Debug", "Airplanes::action fresh + paired, 7 receivers"]}));
    run.sample(json!({"pair": "Altitude{odd, 131071, 0} / Altitude{even, u32::MAX, u32::MAX}", "ops": ["get_position"]}));
    let mut cov = e1_coverage(
        &run,
        &st,
        "union lattice of C02-C11 (every leaf x context: base, bit-walk, field sweeps, pairs) + all byte strings of length 0..=2 (quick) / 0..=3 (thorough) + 32 DF x lengths 4..=32 x contexts x bit-walk + all ordered pairs of a CPR report alphabet + 3-frame tracker histories under 11 receivers x 7 ranges (incl. NaN/inf); every operation inside catch_unwind, allocation meter per decode, 20 s stall watchdog. Non-trivial = inputs that decoded and had every frame operation applied",
        true,
    );
    cov["evaluations"] = json!(cov["evaluations"].as_u64().unwrap_or(0) + pair_cases.load(Ordering::Relaxed) + tr_cases.load(Ordering::Relaxed));
    cov["alloc_bound_bytes"] = json!(ALLOC_BOUND);
    run.finish(
        "exploration",
        cov,
        vec![
            "totality is checked on the enumerated lattice, not on all 2^112 frames; payload values outside the alphabet are reached only through contexts and bit-walks".into(),
            "allocation bound: total bytes requested per decode <= 4 KiB (measured maximum reported as max_alloc_bytes_per_decode)".into(),
            "a stall of 20 s without progress is reported as a hang".into(),
        ],
    )
}
