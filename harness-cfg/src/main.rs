//! Configuration harness (C20): the digest module of the main harness compiled against the subject
//! built with exactly one feature set (`--features cfg-std` or `--features cfg-alloc`).
#[path = "../../harness/src/alpha.rs"]
mod alpha;
#[path = "../../harness/src/bits.rs"]
mod bits;
#[path = "../../harness/src/cprref.rs"]
mod cprref;
#[path = "../../harness/src/digest.rs"]
mod digest;
#[path = "../../harness/src/enc.rs"]
mod enc;
#[path = "../../harness/src/gen.rs"]
mod gen;
#[path = "../../harness/src/refdec.rs"]
mod refdec;
#[path = "../../harness/src/vclock.rs"]
mod vclock;

fn main() {
    std::panic::set_hook(Box::new(|_| {}));
    let args: Vec<String> = std::env::args().skip(1).collect();
    std::process::exit(digest::cli(&args));
}
