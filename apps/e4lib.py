"""Shared plumbing of the E4 explorer: build, worker pool, verdict bookkeeping (known findings, replay
confirmation, BLESS), evidence and replay files."""

import hashlib
import json
import multiprocessing
import os
import shutil
import signal
import subprocess
import sys
import tempfile
import time
import traceback

ROOT = os.environ.get('VERIF_ROOT', '/verif')
APPS = os.path.dirname(os.path.abspath(__file__))
VH = os.environ.get('E4_VH') or os.path.join(ROOT, 'target/h/release/vh')
OUT = os.environ.get('E4_OUT_DIR') or ROOT      # evidence/ and replays/ live here (scratch dir for mutation demos)
KF_FILE = os.environ.get('VERIF_KF_FILE', os.path.join(ROOT, 'known_findings.json'))
MAX_REPLAYED_PER_CLASS = 6
JOBS = int(os.environ.get('E4_JOBS', '32'))
BLESS = os.environ.get('VERIF_BLESS', '') == '1'
SEED = int(os.environ.get('VERIF_SEED', '0') or 0)
MAX_LINES_PER_CLASS = 3
WATCHDOG_S = 240

RX_LAT, RX_LON = 35.0, -80.0
BASE_ARGV = ['--lat=%s' % RX_LAT, '--long=%s' % RX_LON]


class Machinery(Exception):
    pass


def build():
    r = subprocess.run([os.path.join(APPS, 'build.sh')], stdout=subprocess.PIPE, stderr=subprocess.STDOUT)
    if r.returncode != 0:
        sys.stdout.write(r.stdout.decode('utf-8', 'replace'))
        if b'MACHINERY' not in r.stdout:
            print('MACHINERY: build.sh failed with status %d' % r.returncode)
        sys.stdout.flush()
        sys.exit(2)
    if not os.access(VH, os.X_OK):
        print('MACHINERY: %s missing (run /verif/bin/vcheck setup)' % VH)
        sys.exit(2)


def mkfeed(specs):
    """list of vh mkfeed specs -> list of `*hex;` strings (no newline)"""
    r = subprocess.run([VH, 'mkfeed'], input=json.dumps(specs).encode(), stdout=subprocess.PIPE,
                       stderr=subprocess.PIPE, timeout=30)
    if r.returncode != 0:
        raise Machinery('vh mkfeed failed: %s' % r.stderr.decode('utf-8', 'replace')[-300:])
    lines = r.stdout.decode().split()
    if len(lines) != len(specs):
        raise Machinery('vh mkfeed returned %d lines for %d specs' % (len(lines), len(specs)))
    return lines


def feed2table(feed_bytes, lat=RX_LAT, lon=RX_LON, max_range=500):
    r = subprocess.run([VH, 'feed2table', str(lat), str(lon), str(max_range)], input=feed_bytes,
                       stdout=subprocess.PIPE, stderr=subprocess.PIPE, timeout=30)
    if r.returncode != 0:
        raise Machinery('vh feed2table failed: %s' % r.stderr.decode('utf-8', 'replace')[-300:])
    return json.loads(r.stdout.decode())


def hexs(b):
    return bytes(b).hex()


def digest16(*parts):
    h = hashlib.sha256()
    for p in parts:
        h.update(p.encode() if isinstance(p, str) else p)
        h.update(b'\0')
    return h.hexdigest()[:16]


# ---------------------------------------------------------------------------------------------
# worker side
_JUDGES = {}


def register_judge(name, fn):
    _JUDGES[name] = fn


def _worker_init(scratch):
    signal.signal(signal.SIGINT, signal.SIG_IGN)
    os.environ['E4_SCRATCH'] = scratch
    import e4drv
    e4drv.SCRATCH = scratch


def run_and_judge(script):
    """-> dict(status='ok'|'mach', verdict=None|{...}, summary={...})   (runs in a worker)"""
    import e4drv
    try:
        obs = e4drv.run_script(script)
        if obs.get('unresponsive') and script['oracle'] != 'c17':
            # a radar that neither draws nor honours quit without traffic breaks C17 (reported there); the feed and
            # screen oracles of C16 / C18 cannot be evaluated on it
            return {'status': 'mach', 'msg': 'subject unresponsive after connect (no draw, quit not honoured): C17 reports this'}
        judge = _JUDGES[script['oracle']]
        verdict, summary = judge(script, obs)
        out = {'status': 'ok', 'verdict': verdict, 'summary': summary}
        if verdict is not None:
            out['obs'] = slim_obs(obs)
        return out
    except e4drv.Machinery as e:
        return {'status': 'mach', 'msg': str(e)}
    except Exception:
        return {'status': 'mach', 'msg': 'worker exception: ' + traceback.format_exc()[-1500:]}


def slim_obs(obs):
    o = dict(obs)
    for k in ('final_screen',):
        o.pop(k, None)
    if 'stdout' in o and len(o['stdout']) > 80:
        o['stdout'] = o['stdout'][:80] + ['... (%d lines)' % len(obs['stdout'])]
    return o


def _task(args):
    idx, script = args
    return idx, run_and_judge(script)


# ---------------------------------------------------------------------------------------------
class Explorer:
    """Runs scripts on the pool, confirms violations by two replays, applies known findings."""

    def __init__(self, prop, tier):
        self.prop = prop
        self.tier = tier
        self.t0 = time.monotonic()
        self.scratch = tempfile.mkdtemp(prefix='e4_%s_' % prop)
        self.pool = multiprocessing.Pool(JOBS, initializer=_worker_init, initargs=(self.scratch,))
        self.ran = 0
        self.events = 0
        self.keys_ran = set()
        self.machinery = []          # messages
        self.flaky = []
        self.transient = []   # violated once, passed on a confirmation replay: not a stable verdict
        self.retried_ok = 0
        self.violations = []         # confirmed, not known: dict(script, verdict, obs, replay_path)
        self.known_hits = {}         # finding id -> count
        self.known = load_known(prop)
        self.outcomes = {}           # outcome signature -> count
        self.screens = set()
        self.class_counts = {}
        self.samples = []
        self.unlisted_total = 0
        self.unreplayed = {}         # class -> scripts that violated once and were not replayed (beyond the first few per class)
        self.caps = []

    def close(self):
        try:
            self.pool.terminate()
            self.pool.join()
        except Exception:
            pass
        shutil.rmtree(self.scratch, ignore_errors=True)

    def run(self, scripts, label=''):
        """Run all scripts (list). Violations are confirmed concurrently."""
        pending = []   # (script, first_result, [async1, async2])
        retry = []     # (script, machinery result)
        n = len(scripts)
        it = self.pool.imap_unordered(_task, list(enumerate(scripts)), chunksize=1)
        got = 0
        n_mach_run = 0
        n_viol_run = 0
        first_cls = {}
        while got < n:
            try:
                idx, res = it.next(timeout=WATCHDOG_S)
            except StopIteration:
                break
            except multiprocessing.TimeoutError:
                self.machinery.append('no result from the worker pool for %d s (%d of %d scripts done): a worker died or hung'
                                      % (WATCHDOG_S, got, n))
                break
            got += 1
            script = scripts[idx]
            self._account(script, res)
            if res['status'] == 'mach':
                n_mach_run += 1
            # a subject that cannot be brought into its initial state at all: stop instead of timing out script by script
            if got >= 24 and n_mach_run == got:
                self.machinery.append('the first %d scripts all failed to establish their initial state (e.g. %s): subject unusable, '
                                      'run abandoned' % (got, res.get('msg')))
                self.pool.terminate()
                self.pool = multiprocessing.Pool(JOBS, initializer=_worker_init, initargs=(self.scratch,))
                return got
            if res['status'] == 'mach':
                # a machinery error (a timeout while establishing a state, under load) is retried below,
                # one script at a time; only a persistent one counts
                retry.append((script, res))
                continue
            v = res['verdict']
            if v is None:
                continue
            fid = self._known_match(script, v)
            if fid is not None:
                self.known_hits[fid] = self.known_hits.get(fid, 0) + 1
                continue
            n_viol_run += 1
            cls0 = v['class']
            first_cls[cls0] = first_cls.get(cls0, 0) + 1
            if first_cls[cls0] <= MAX_REPLAYED_PER_CLASS:
                pending.append((script, res, [self.pool.apply_async(run_and_judge, (script,)),
                                              self.pool.apply_async(run_and_judge, (script,))]))
            else:
                self.unreplayed[cls0] = self.unreplayed.get(cls0, 0) + 1
            # every script so far violates: the subject is broken at the root, the remaining scripts add nothing
            if got >= 48 and n_viol_run == got:
                self.caps.append('run abandoned after %d of %d scripts: every one of them violated (%s)' % (got, n, sorted(first_cls)))
                self.pool.terminate()
                self.pool = multiprocessing.Pool(JOBS, initializer=_worker_init, initargs=(self.scratch,))
                pending = [(sc, rs, [self.pool.apply_async(run_and_judge, (sc,)), self.pool.apply_async(run_and_judge, (sc,))])
                           for sc, rs, _old in pending]
                retry = []
                break
        if len(retry) > max(40, n // 20):
            # retries run one script at a time: with this many the subject (or the machine) is not in a state to be judged
            self.machinery.append('%d of %d scripts failed to establish their state (e.g. %s: %s): not retried'
                                  % (len(retry), n, retry[0][0].get('key'), retry[0][1].get('msg')))
            retry = []
        for script, res0 in retry:
            res = res0
            for _ in range(2):
                try:
                    res = self.pool.apply_async(run_and_judge, (script,)).get(timeout=300)
                except Exception as e:
                    res = {'status': 'mach', 'msg': 'retry failed: %r' % e}
                if res['status'] != 'mach':
                    break
            if res['status'] == 'mach':
                self.machinery.append('%s: %s (after 2 retries)' % (script.get('key'), res['msg']))
                continue
            self.retried_ok += 1
            self._account(script, res)
            self.ran -= 1
            v = res['verdict']
            if v is None:
                continue
            fid = self._known_match(script, v)
            if fid is not None:
                self.known_hits[fid] = self.known_hits.get(fid, 0) + 1
                continue
            pending.append((script, res, [self.pool.apply_async(run_and_judge, (script,)),
                                          self.pool.apply_async(run_and_judge, (script,))]))
        for script, res, asyncs in pending:
            reps = []
            for a in asyncs:
                try:
                    reps.append(a.get(timeout=300))
                except Exception as e:
                    reps.append({'status': 'mach', 'msg': 'confirmation replay failed: %r' % e})
            self._confirm(script, res, reps)
        return n

    def _account(self, script, res):
        self.ran += 1
        if res['status'] != 'ok':
            return
        s = res.get('summary') or {}
        self.events += s.get('events', 0)
        self.keys_ran.add(script.get('key'))
        oc = s.get('outcome', '?')
        self.outcomes[oc] = self.outcomes.get(oc, 0) + 1
        for d in s.get('screens', []):
            self.screens.add(d)
        if len(self.samples) < 6 and (self.ran % 97 == 1 or len(self.samples) < 2):
            def short(st):
                st = dict(st)
                if len(st.get('hex', '')) > 64:
                    st['hex'] = st['hex'][:64] + '...(%d bytes)' % (len(st['hex']) // 2)
                st.pop('cycle', None)
                return st
            self.samples.append({'key': script.get('key'), 'binary': script.get('binary'), 'argv': script.get('argv'),
                                 'size': script.get('size'), 'steps': [short(x) for x in script.get('steps')[:14]],
                                 'outcome': oc})

    def _known_match(self, script, v):
        k = (script.get('key'), v['observed'])
        return self.known.get(k)

    def _confirm(self, script, res, reps):
        v = res['verdict']
        sigs = []
        for r in reps:
            if r['status'] != 'ok':
                sigs.append('MACH:' + r.get('msg', '')[:100])
            elif r['verdict'] is None:
                sigs.append('PASS')
            else:
                sigs.append(r['verdict']['observed'])
        if not (sigs[0] == sigs[1] == v['observed']):
            (self.transient if 'PASS' in sigs else self.flaky).append({'key': script.get('key'), 'first': v['observed'], 'replays': sigs})
            try:
                d = os.path.join(OUT, 'replays', self.prop)
                os.makedirs(d, exist_ok=True)
                with open(os.path.join(d, 'flaky_' + digest16(self.prop, script.get('key', '')) + '.json'), 'w') as f:
                    json.dump({'property': self.prop, 'flaky': True, 'script_key': script.get('key'), 'first': v,
                               'first_observation': res.get('obs'), 'replay_signatures': sigs, 'script': script}, f, indent=1)
            except OSError:
                pass
            return
        self.unlisted_total += 1
        cls = v['class']
        self.class_counts[cls] = self.class_counts.get(cls, 0) + 1
        path = write_replay(self.prop, script, v, res.get('obs'))
        self.violations.append({'script': script, 'verdict': v, 'replay': path})

    # -- reporting --------------------------------------------------------------------------
    def report(self, level, coverage_extra, assumptions):
        """prints the verdict lines, writes evidence, returns the exit code"""
        wall = time.monotonic() - self.t0
        for fid, n in sorted(self.known_hits.items()):
            print('KNOWN-FINDING: property=%s %s: %s (%d scripts)' % (self.prop, fid, self.known_what.get(fid, ''), n))
        shown = {}
        for v in self.violations:
            cls = v['verdict']['class']
            if BLESS:
                print('BLESS ' + json.dumps({'script_key': v['script']['key'], 'observed': v['verdict']['observed'],
                                             'class': cls}, sort_keys=True))
                continue
            shown[cls] = shown.get(cls, 0) + 1
            if shown[cls] <= MAX_LINES_PER_CLASS:
                print('VIOLATION property=%s replay=%s' % (self.prop, v['replay']))
                print('  class=%s key=%s observed=%s' % (cls, v['script']['key'], str(v['verdict'].get('observed'))[:200]))
        if not BLESS:
            for cls, n in sorted(shown.items()):
                if n > MAX_LINES_PER_CLASS:
                    print('  ... class %s: %d violating scripts in total (%d shown)' % (cls, n, MAX_LINES_PER_CLASS))
        for cls, k in sorted(self.unreplayed.items()):
            print('  ... class %s: %d more scripts violated on their first run and were not replayed' % (cls, k))
        for c in self.caps:
            print('NOTE: %s' % c)
        for f in self.flaky[:5]:
            print('MACHINERY: flaky script %s first=%s replays=%s' % (f['key'], f['first'], f['replays']))
        for m in self.machinery[:5]:
            print('MACHINERY: %s' % m)
        if len(self.machinery) > 5:
            print('MACHINERY: ... %d machinery errors in total' % len(self.machinery))
        nviol = len(self.violations)
        cov = {
            'evaluations': self.ran,
            'distinct_nontrivial': len(self.keys_ran),
            'states': len(self.keys_ran),
            'transitions': self.events,
            'traces_validated_against_impl': len(self.keys_ran),
            'distinct_outcomes': len(self.outcomes),
            'outcome_histogram': dict(sorted(self.outcomes.items(), key=lambda kv: -kv[1])[:12]),
            'distinct_final_screens': len(self.screens),
            'known_finding_scripts': dict(self.known_hits),
            'violation_classes': dict(self.class_counts),
            'flaky_scripts': len(self.flaky),
            'transient_discrepancies': [t['key'] for t in self.transient[:20]],
            'machinery_retries_that_succeeded': self.retried_ok,
            'machinery_errors': len(self.machinery),
            'parallel_subjects': JOBS,
            'samples': self.samples,
        }
        cov.update(coverage_extra)
        cov['caps_hit'] = list(cov.get('caps_hit', [])) + list(self.caps)
        if self.caps:
            cov['exhaustive'] = False
        if self.unreplayed:
            cov['violating_scripts_not_replayed'] = dict(self.unreplayed)
        if level == 'fault_enumeration':
            for k in ('states', 'transitions', 'traces_validated_against_impl'):
                cov.pop(k, None)
        ev = {'property_id': self.prop, 'tier': self.tier, 'seed': SEED, 'level': level, 'coverage': cov,
              'assumptions': assumptions, 'wall_s': round(wall, 2),
              'violations': nviol}
        bad = check_evidence(ev)
        if bad:
            print('MACHINERY: evidence would not validate: %s' % bad)
            self.machinery.append('evidence invalid: %s' % bad)
        os.makedirs(os.path.join(OUT, 'evidence'), exist_ok=True)
        tmp = os.path.join(OUT, 'evidence', '.%s.json.tmp' % self.prop)
        with open(tmp, 'w') as f:
            json.dump(ev, f, indent=1, sort_keys=True)
        os.replace(tmp, os.path.join(OUT, 'evidence', '%s.json' % self.prop))
        print('%s tier=%s scripts=%d events=%d outcomes=%d known=%d violations=%d flaky=%d machinery=%d wall=%.1fs'
              % (self.prop, self.tier, self.ran, self.events, len(self.outcomes), sum(self.known_hits.values()),
                 nviol, len(self.flaky), len(self.machinery), wall))
        if len(self.transient) > max(3, self.ran // 100):
            self.machinery.append('%d scripts violated once and passed on replay: the driver is not deterministic enough' % len(self.transient))
            print('MACHINERY: %s' % self.machinery[-1])
        if BLESS:
            return 2 if (self.machinery or self.flaky) else 0
        if nviol:
            return 1
        if self.machinery or self.flaky:
            return 2
        return 0


def check_evidence(ev):
    """the constraints of /root/.vp/EVIDENCE.schema.json that apply to the two levels used here (no jsonschema offline)"""
    for k, t in (('property_id', str), ('tier', str), ('seed', int), ('level', str), ('coverage', dict), ('wall_s', (int, float))):
        if not isinstance(ev.get(k), t):
            return 'key %s missing or of the wrong type' % k
    if ev['tier'] not in ('quick', 'thorough'):
        return 'tier'
    c = ev['coverage']
    if not (isinstance(c.get('samples'), list) and c['samples']):
        return 'coverage.samples must be a non-empty list'
    if ev['level'] == 'fault_enumeration':
        if not (isinstance(c.get('evaluations'), int) and c['evaluations'] >= 1):
            return 'coverage.evaluations'
        if not (isinstance(c.get('distinct_nontrivial'), int) and c['distinct_nontrivial'] >= 2):
            return 'coverage.distinct_nontrivial must be >= 2'
        if not isinstance(c.get('rule'), str):
            return 'coverage.rule'
    elif ev['level'] == 'model_checking':
        for k in ('states', 'transitions'):
            if not (isinstance(c.get(k), int) and c[k] >= 1):
                return 'coverage.%s must be >= 1' % k
        if not (isinstance(c.get('traces_validated_against_impl'), int) and c['traces_validated_against_impl'] >= 0):
            return 'coverage.traces_validated_against_impl'
    else:
        return 'unexpected level %r' % ev['level']
    if not isinstance(ev.get('assumptions'), list) or not all(isinstance(a, str) for a in ev['assumptions']):
        return 'assumptions'
    if not isinstance(ev.get('violations'), int):
        return 'violations'
    return None


def load_known(prop):
    """-> {(script_key, observed): finding id}; also fills Explorer.known_what (class attr)"""
    out = {}
    Explorer.known_what = {}
    try:
        with open(KF_FILE) as f:
            kf = json.load(f)
    except FileNotFoundError:
        return out
    except Exception as e:
        print('MACHINERY: cannot read %s: %s' % (KF_FILE, e))
        sys.exit(2)
    for fd in kf.get('findings', []):
        if fd.get('property') != prop or fd.get('status') != 'open':
            continue
        entries = list(fd.get('scripts') or [])
        kfile = fd.get('keys_file')
        if kfile:
            p = kfile if os.path.isabs(kfile) else os.path.join(os.path.dirname(KF_FILE), kfile)
            if not os.path.exists(p):
                p = os.path.join(ROOT, kfile)
            try:
                with open(p) as f:
                    for line in f:
                        line = line.strip()
                        if not line:
                            continue
                        if line.startswith('BLESS '):
                            line = line[6:]
                        entries.append(json.loads(line))
            except Exception as e:
                print('MACHINERY: cannot read keys_file %s of %s: %s' % (kfile, fd.get('id'), e))
                sys.exit(2)
        default_obs = fd.get('observed')
        for e in entries:
            if isinstance(e, str):
                key, obs = e, default_obs
            else:
                key = e.get('script_key', e.get('key'))
                obs = e.get('observed', default_obs)
            if key is None or obs is None:
                continue
            out[(key, obs)] = fd['id']
        Explorer.known_what[fd['id']] = fd.get('what', '')
    return out


def write_replay(prop, script, verdict, obs):
    d = os.path.join(OUT, 'replays', prop)
    os.makedirs(d, exist_ok=True)
    name = digest16(prop, script.get('key', ''), json.dumps(script.get('steps'), sort_keys=True),
                    json.dumps(script.get('argv'))) + '.json'
    path = os.path.join(d, name)
    doc = {'property': prop, 'explorer': 'E4', 'class': verdict['class'], 'script_key': script.get('key'),
           'expected': verdict.get('expected'), 'observed': verdict['observed'], 'detail': verdict.get('detail'),
           'script': script, 'observation': obs,
           'how_to_replay': 'python3 /verif/apps/e4.py replay %s' % path}
    with open(path, 'w') as f:
        json.dump(doc, f, indent=1, sort_keys=True)
    return path
