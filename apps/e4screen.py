"""Readers for radar's screens (on top of the VT grid): tab bar, Airplanes table, Stats table, Map canvas."""

import re

HEADERS = ['ICAO', 'Call', 'Lat', 'Long', 'Heading', 'Altitude', 'FPM', 'Speed', 'Distance', 'Msgs']
FIELDS = ['icao', 'callsign', 'lat', 'lon', 'heading', 'alt', 'fpm', 'speed', 'dist', 'msgs']
# nominal column widths of the table (airplanes.rs)
WIDTHS = [6, 9, 7, 7, 7, 8, 6, 5, 8, 6]

TITLE_RE = re.compile(r'Airplanes\((\d+)\)')


def tab_title_count(lines):
    """n of `Airplanes(n)` in the tab bar (row 2) or None"""
    for ln in lines[:4]:
        if 'Map' in ln and 'Coverage' in ln:
            m = TITLE_RE.search(ln)
            if m:
                return int(m.group(1))
    return None


def parse_airplanes(lines):
    """-> None if the Airplanes table is not on screen, else
       {"title_n": int|None, "rows": [{field: text}], "raw_rows": [str], "col": {field: (start, width)}}"""
    hdr_i = None
    for i, ln in enumerate(lines):
        if 'ICAO' in ln and ('Msgs' in ln or 'Call' in ln):
            hdr_i = i
            break
    if hdr_i is None or hdr_i == 0:
        return None
    top = lines[hdr_i - 1]
    m = TITLE_RE.search(top)
    title_n = int(m.group(1)) if m else None
    hdr = lines[hdr_i]
    left = hdr.find('│')
    right = hdr.rfind('│')
    if left < 0 or right <= left:
        return None
    starts = []
    pos = left
    missing = []
    for h in HEADERS:
        j = hdr.find(h, pos)
        if j < 0:
            j = hdr.find(h[:3], pos)        # a header cut short by a narrower column
        if j < 0:
            # a column that does not fit the terminal is dropped by the table widget: reported, not a parse failure
            missing.append(h)
            starts.append(None)
            continue
        starts.append(j - 3 if h == 'FPM' else j)
        pos = j + len(h)
    col = {}
    for k, f in enumerate(FIELDS):
        if starts[k] is None:
            col[f] = (right, 0)
            continue
        nxt = [x for x in starts[k + 1:] if x is not None]
        end = nxt[0] - 1 if nxt else right
        col[f] = (starts[k], max(0, end - starts[k]))
    rows = []
    raw_rows = []
    # rows follow the header after its bottom margin (blank lines); the table can hold as many rows as there are
    # lines between that margin and the bottom border - both are read off the screen, not assumed
    body_lines = 0
    leading_blank = 0
    for ln in lines[hdr_i + 1:]:
        if '└' in ln or '┘' in ln:
            break
        if len(ln) <= left or ln[left] != '│':
            break
        body_lines += 1
        body = ln.ljust(right + 1)
        if not body[left + 1:right].strip():
            if not rows:
                leading_blank += 1
            continue
        raw_rows.append(body[left + 1:right].rstrip())
        rows.append({f: body[s:s + w].strip() for f, (s, w) in col.items()})
    if not rows:
        leading_blank = min(leading_blank, 1)   # an empty table: only the header margin is known to be blank
    return {'title_n': title_n, 'rows': rows, 'raw_rows': raw_rows, 'col': col, 'capacity': max(0, body_lines - leading_blank), 'missing_cols': missing}


def parse_stats(lines):
    """-> None or {"max_distance": str, "most": str, "total": str}"""
    out = {}
    seen = False
    for ln in lines:
        if 'Max Distance' in ln:
            seen = True
            out['max_distance'] = ln.split('Max Distance', 1)[1].strip(' │')
        elif 'Most Airplanes' in ln:
            rest = ln.split('Most Airplanes', 1)[1].strip(' │')
            out['most_raw'] = rest
            out['most'] = rest.split()[-1] if rest.split() else ''
        elif 'Total Airplanes' in ln:
            rest = ln.split('Total Airplanes', 1)[1].strip(' │')
            out['total'] = rest.split()[-1] if rest.split() else ''
    return out if seen or out else None


def is_braille(ch):
    return 0x2800 <= ord(ch) <= 0x28ff


def parse_map(lines, labels):
    """Map tab: -> None or {"box": (x0, y0, x1, y1) inner canvas cells, "axis_col": c, "axis_row": r,
                            "labels": {name: (col, row)}}
    axis_col = the column with the most braille cells having right/left-column dots in most rows (the vertical axis),
    axis_row = the row with the most braille cells (the horizontal axis)."""
    top = None
    for i, ln in enumerate(lines):
        j = ln.find('┌Map')
        if j >= 0:
            top = (i, j)
            break
    if top is None:
        return None
    y0, x0 = top
    x1 = lines[y0].rfind('┐')
    y1 = None
    for i in range(y0 + 1, len(lines)):
        if len(lines[i]) > x0 and lines[i][x0] == '└':
            y1 = i
            break
    if y1 is None or x1 <= x0:
        return None
    box = (x0 + 1, y0 + 1, x1 - 1, y1 - 1)
    grid = [lines[y].ljust(x1 + 1) for y in range(len(lines))]
    # axes
    best_row, best_n = None, -1
    for y in range(box[1], box[3] + 1):
        n = sum(1 for x in range(box[0], box[2] + 1) if is_braille(grid[y][x]))
        if n > best_n:
            best_row, best_n = y, n
    best_col, best_c = None, -1
    for x in range(box[0], box[2] + 1):
        n = sum(1 for y in range(box[1], box[3] + 1) if is_braille(grid[y][x]))
        if n > best_c:
            best_col, best_c = x, n
    found = {}
    for name in labels:
        hits = []
        for y in range(box[1], box[3] + 1):
            row = grid[y][box[0]:box[2] + 1]
            for m in re.finditer(r'(?<![A-Za-z0-9])' + re.escape(name) + r'(?![A-Za-z0-9])', row):
                hits.append((box[0] + m.start(), y))
        if len(hits) == 1:
            found[name] = hits[0]
        elif len(hits) > 1:
            found[name] = ('ambiguous', hits)
    return {'box': box, 'axis_col': best_col, 'axis_row': best_row, 'axis_col_cells': best_c, 'axis_row_cells': best_n,
            'labels': found}
