"""E4 driver: runs the real `radar` (pty + fake TCP server) and `1090` (pipes + fake TCP server)
binaries under a step script and returns an observation.

A *script* is a JSON-serialisable dict:
  {"binary": "radar"|"1090", "argv": [...], "size": [cols, rows], "filler": bool,
   "steps": [ {op...}, ... ], ...free-form metadata (key, oracle, expected...)}

Step ops (radar):
  {"op":"keys","hex":"1b5b31337e"}          one write() to the pty master; returns once the subject has read it (rchar)
  {"op":"sync","n":2}                        wait for n heartbeats (ESC[?25l) *emitted after* the last injection (wchar mark)
  {"op":"send","hex":"..."}                  one send() on the feed connection; returns once the subject's TCP acked it
  {"op":"gap","n":k+2}                       read-timeout gap: pacing off, n heartbeats emitted after the segment landed
  {"op":"lines","hex":"...","n":k}           send k complete valid lines and wait until they are provably consumed and drawn
  {"op":"resize","cols":c,"rows":r}          TIOCSWINSZ + SIGWINCH
  {"op":"filler","on":true|false,"cycle":[hex lines]}   pacing stream: 2..3 valid non-ES lines kept queued ahead of the subject
  {"op":"age","ms":1600}                     let wall time pass (>= ms, then 2 fresh heartbeats) - used for expiry only
  {"op":"close"}                             server closes the connection
  {"op":"accept"}                            server accepts the (re)connection
  {"op":"snap","name":"x"}                   record the screen as of the latest heartbeat (a complete frame)
  {"op":"quit","hex":"71"}                   write the quit key and wait for the process to exit
  {"op":"wait_exit"}                         wait for the process to exit on its own (disconnect)
  {"op":"wait_exit_or_hb"}                   command-line scripts: exit (usage error / crash) or first draws (accepted)
Step ops (1090):
  send / gap (>= 250 ms and 3 more blocking recv()s of the subject) / close / settle /
  {"op":"expect","line":"<hex payload>","after":k}  wait until that echo (+k lines) appeared on stdout

Timeouts (default 5 s) while *establishing* a state raise Machinery; a subject that exits early or stops
drawing is an observation (the oracle decides), never an exception.
"""

import bisect
import ctypes
import errno
import fcntl
import os
import pty
import re
import select
import shutil
import signal
import socket
import struct
import subprocess
import tempfile
import termios
import time

import vt

BIN_DIR = os.environ.get('E4_BIN_DIR') or os.path.join(os.environ.get('E4_TARGET_DIR', '/verif/target/apps'), 'release')
SCRATCH = os.environ.get('E4_SCRATCH', '/tmp')
T_SYNC = float(os.environ.get('E4_TIMEOUT', '5'))
FILLER = b'*5dab3d17d4ba29;\n'
GAP_1090_S = 0.25
HB_FRESH = 2   # heartbeats *emitted after* an injection that guarantee "handled and drawn" (1 draw may be in progress)
HB_PAT = b'\x1b[?25l'

MOUSE_MODES = (1000, 1002, 1003, 1005, 1006, 1015)


class Machinery(Exception):
    pass


_libc = None


def _preexec_tty():
    # new session, the pty slave (fd 0) becomes the controlling terminal, die with the worker
    os.setsid()
    fcntl.ioctl(0, termios.TIOCSCTTY, 0)
    _pdeathsig()


def _pdeathsig():
    global _libc
    try:
        if _libc is None:
            _libc = ctypes.CDLL(None, use_errno=True)
        _libc.prctl(1, signal.SIGKILL, 0, 0, 0)   # PR_SET_PDEATHSIG
    except Exception:
        pass


def _env(tmp):
    return {'PATH': '/usr/bin:/bin', 'HOME': tmp, 'TERM': 'xterm-256color', 'TZ': 'UTC', 'LANG': 'C.UTF-8',
            'RUST_BACKTRACE': '0', 'NO_COLOR': '1'}


PANIC_RE = re.compile(rb"panicked at ([^\r\n]*?):(\d+):(\d+):\r?\n([^\r\n]*)")
PANIC_RE_OLD = re.compile(rb"panicked at '([^\r\n]*)', ([^\r\n:]*):(\d+):(\d+)")


def find_panic(raw):
    """-> None or {"file","line","msg"}"""
    m = PANIC_RE.search(raw)
    if m:
        return {'file': m.group(1).decode('utf-8', 'replace'), 'line': int(m.group(2)),
                'msg': m.group(4).decode('utf-8', 'replace').strip()}
    m = PANIC_RE_OLD.search(raw)
    if m:
        return {'file': m.group(2).decode('utf-8', 'replace'), 'line': int(m.group(3)),
                'msg': m.group(1).decode('utf-8', 'replace').strip()}
    if b'panicked at' in raw:
        return {'file': '?', 'line': 0, 'msg': '?'}
    return None


def _termios_key(t):
    # iflag, oflag, cflag, lflag, cc (speeds left out: never changed by the subject, but cheap to keep)
    return [t[0], t[1], t[2], t[3], [c if isinstance(c, int) else c.hex() for c in t[6]]]


class Radar:
    def __init__(self, argv, cols, rows):
        self.argv = list(argv)
        self.cols, self.rows = cols, rows
        self.tmp = None
        self.lsock = None
        self.conn = None
        self.master = self.slave = None
        self.proc = None
        self.scr = vt.Screen(cols, rows)
        self.raw = bytearray()
        self.filler_on = False
        self.filler_cycle = [FILLER]
        self.filler_i = 0
        self.exit_code = None
        self.termios_before = None
        self.termios_after = None
        self.conn_broken = False
        self.stale_extra = 0     # fallback only (no /proc/<pid>/io): extra heartbeats owed for driver slowness
        self._t_inject = None
        self.mark = None         # byte offset of the subject's output stream at the last injection
        self.stream_off = 0      # bytes read from the pty so far
        self._scan_tail = b''
        self.hb_off = []         # exact stream offsets (end) of every heartbeat sequence read so far
        self.line_marks = []     # one wchar mark per complete line sent on the feed connection (non-decreasing)
        self.consumed_lb = 0     # lower bound of the number of those lines the subject has taken from the stream
        self.marks_ok = True     # False once /proc/<pid>/io was unreadable (fallback to plain counting)

    # -- causal heartbeat accounting ----------------------------------------------------------
    # A heartbeat read from the pty may have been written by the subject *before* an injection (bytes still in the
    # kernel's pty queue, or the driver was slow).  /proc/<pid>/io:wchar is the number of bytes the subject has
    # written so far; read right after an injection it bounds the stream offset of everything emitted before it.
    # Heartbeats whose offset is larger were emitted after the injection ("fresh").  wchar also counts bytes written
    # elsewhere (log file): that only makes the bound larger, i.e. the wait longer - never unsound.
    def wchar(self):
        # bytes written to the log file are subtracted; the log size is read *first* so the result can only be too
        # large (conservative), never too small
        logged = 0
        try:
            with os.scandir(os.path.join(self.tmp, 'logs')) as it:
                for e in it:
                    logged += e.stat().st_size
        except OSError:
            logged = 0
        try:
            with open('/proc/%d/io' % self.proc.pid) as f:
                for ln in f:
                    if ln.startswith('wchar:'):
                        return int(ln.split()[1]) - logged
        except (OSError, ValueError):
            pass
        return None

    def _begin_inject(self):
        self._t_inject = time.monotonic()
        self.drain()

    def _end_inject(self):
        self.mark = self.wchar()
        if self.mark is None:
            dt = time.monotonic() - self._t_inject
            self.stale_extra = max(self.stale_extra, 2 + int(dt / 0.010))

    def _scan_heartbeats(self, data):
        buf = self._scan_tail + data
        base = self.stream_off - len(self._scan_tail)
        i = buf.find(HB_PAT)
        while i >= 0:
            self.hb_off.append(base + i + len(HB_PAT))
            # The iteration that emitted this heartbeat started after the previous heartbeat was emitted; every line
            # whose send had returned before that (mark < previous offset) was available to its read_line, which takes
            # exactly one line when one is available.  So: one guaranteed consumption per heartbeat while such lines exist.
            if len(self.hb_off) >= 2:
                avail = bisect.bisect_left(self.line_marks, self.hb_off[-2]) - self.consumed_lb
                if avail > 0:
                    self.consumed_lb += 1
            i = buf.find(HB_PAT, i + 1)
        self.stream_off += len(data)
        self._scan_tail = buf[-(len(HB_PAT) - 1):]

    # -- lifecycle --------------------------------------------------------------------------
    def start(self, listen=True):
        self.tmp = tempfile.mkdtemp(prefix='e4r_', dir=SCRATCH)
        self.lsock = socket.socket(socket.AF_INET, socket.SOCK_STREAM)
        self.lsock.setsockopt(socket.SOL_SOCKET, socket.SO_REUSEADDR, 1)
        self.lsock.bind(('127.0.0.1', 0))
        if listen:
            self.lsock.listen(8)
        # else: bound but not listening - connects are refused while the port stays reserved for this subject
        self.port = self.lsock.getsockname()[1]
        self.master, self.slave = pty.openpty()
        fcntl.ioctl(self.slave, termios.TIOCSWINSZ, struct.pack('HHHH', self.rows, self.cols, 0, 0))
        self.termios_before = termios.tcgetattr(self.slave)
        if not (self.termios_before[3] & termios.ICANON and self.termios_before[3] & termios.ECHO):
            raise Machinery('fresh pty is not in cooked mode')
        self.proc = subprocess.Popen(
            [os.path.join(BIN_DIR, 'radar'), '--port', str(self.port)] + self.argv,
            stdin=self.slave, stdout=self.slave, stderr=self.slave, cwd=self.tmp, env=_env(self.tmp),
            preexec_fn=_preexec_tty, close_fds=True)
        fl = fcntl.fcntl(self.master, fcntl.F_GETFL)
        fcntl.fcntl(self.master, fcntl.F_SETFL, fl | os.O_NONBLOCK)

    def cleanup(self):
        try:
            if self.proc is not None and self.proc.poll() is None:
                try:
                    self.proc.kill()
                except Exception:
                    pass
                try:
                    self.proc.wait(5)
                except Exception:
                    pass
        finally:
            for s in (self.conn, self.lsock):
                try:
                    if s is not None:
                        s.close()
                except Exception:
                    pass
            for fd in (self.master, self.slave):
                try:
                    if fd is not None:
                        os.close(fd)
                except Exception:
                    pass
            self.conn = self.lsock = self.master = self.slave = None
            if self.tmp:
                shutil.rmtree(self.tmp, ignore_errors=True)

    # -- plumbing ---------------------------------------------------------------------------
    def exited(self):
        if self.exit_code is None and self.proc is not None:
            rc = self.proc.poll()
            if rc is not None:
                self.exit_code = rc
        return self.exit_code is not None

    def _read_master(self):
        try:
            data = os.read(self.master, 65536)
        except BlockingIOError:
            return None
        except OSError as e:
            if e.errno in (errno.EIO, errno.EBADF):
                return b''
            raise
        if data:
            if len(self.raw) < (1 << 22):
                self.raw += data
            hb0 = len(self.hb_off)
            self._scan_heartbeats(data)
            self.scr.feed(data)
            new = len(self.hb_off) - hb0
            if new and self.filler_on:
                self._top_up(new)
        return data

    def pump(self, timeout):
        r, _, _ = select.select([self.master], [], [], max(0.0, timeout))
        if r:
            self._read_master()
        self.exited()

    def drain(self):
        while True:
            r, _, _ = select.select([self.master], [], [], 0)
            if not r:
                break
            d = self._read_master()
            if not d:
                break

    def wait_hb(self, n, timeout=None):
        """wait for n heartbeats emitted after the last injection (or after now, if none is pending)
        -> 'ok' | 'exited' | 'timeout'"""
        timeout = T_SYNC if timeout is None else timeout
        mark = self.mark if self.mark is not None else self.wchar()
        self.mark = None
        if mark is None:       # fallback: plain counting with a safety margin
            target = len(self.hb_off) + n + 1 + self.stale_extra
            self.stale_extra = 0

            def done():
                return len(self.hb_off) >= target
        else:
            def done():
                c = 0
                for o in reversed(self.hb_off):
                    if o <= mark:
                        break
                    c += 1
                return c >= n
        end = time.monotonic() + timeout
        while not done():
            if self.exited():
                self.drain()
                return 'exited'
            left = end - time.monotonic()
            if left <= 0:
                return 'timeout'
            self.pump(min(left, 0.1))
        return 'ok'

    def unconsumed_ub(self):
        """upper bound of the complete lines sent that the subject has not yet taken from the stream"""
        return len(self.line_marks) - self.consumed_lb

    def _send_filler(self):
        line = self.filler_cycle[self.filler_i % len(self.filler_cycle)]
        self.filler_i += 1
        self.send(line)

    def _top_up(self, new_heartbeats):
        # pacing stream: keep 2..3 lines queued ahead of the subject, never more (bounded by the causal estimate);
        # without /proc marks fall back to one line per heartbeat
        if not self.marks_ok:
            for _ in range(new_heartbeats):
                self._send_filler()
            return
        n = 0
        while self.filler_on and self.unconsumed_ub() < 3 and n < 3 and not self.conn_broken and self.conn is not None:
            self._send_filler()
            n += 1

    def set_filler(self, on, cycle=None):
        if cycle is not None:
            self.filler_cycle = [bytes(c) for c in cycle] or [FILLER]
        if on and not self.filler_on:
            self.filler_on = True
            if self.marks_ok:
                self._top_up(0)
            else:
                self._send_filler()
                self._send_filler()
        elif not on:
            self.filler_on = False

    def send(self, data):
        if self.conn is None or self.conn_broken:
            return False
        try:
            self.conn.sendall(data)
            # landed = acknowledged by the subject's TCP (in its receive queue): no unacknowledged bytes left
            end = time.monotonic() + T_SYNC
            buf = bytearray(4)
            while True:
                fcntl.ioctl(self.conn.fileno(), termios.TIOCOUTQ, buf)
                if struct.unpack('i', buf)[0] == 0:
                    break
                if self.exited():
                    # the subject died with our bytes unread: nothing will ever acknowledge them
                    self.conn_broken = True
                    return False
                if time.monotonic() > end:
                    raise Machinery('feed bytes not acknowledged by the subject TCP within %.0f s' % T_SYNC)
                time.sleep(0.0005)
        except OSError:
            self.conn_broken = True
            return False
        k = data.count(b'\n')
        if k:
            m = self.wchar()
            if m is None:
                self.marks_ok = False
                m = self.line_marks[-1] if self.line_marks else 0
            if self.line_marks and m < self.line_marks[-1]:
                m = self.line_marks[-1]
            self.line_marks.extend([m] * k)
        return True

    def wait_consumed(self, target, timeout=None):
        """wait until the first `target` lines sent are provably consumed and drawn -> 'ok' | 'exited' | 'timeout'"""
        timeout = T_SYNC if timeout is None else timeout
        end = time.monotonic() + timeout
        while self.consumed_lb < target:
            if self.exited():
                self.drain()
                return 'exited'
            left = end - time.monotonic()
            if left <= 0:
                return 'timeout'
            self.pump(min(left, 0.1))
        return 'ok'

    def accept(self, timeout=None):
        timeout = T_SYNC if timeout is None else timeout
        end = time.monotonic() + timeout
        self.lsock.setblocking(False)
        while True:
            r, _, _ = select.select([self.lsock, self.master], [], [], 0.1)
            if self.master in r:
                self._read_master()
            if self.lsock in r:
                try:
                    c, _ = self.lsock.accept()
                except BlockingIOError:
                    continue
                c.setsockopt(socket.IPPROTO_TCP, socket.TCP_NODELAY, 1)
                c.settimeout(T_SYNC)
                if self.conn is not None:
                    try:
                        self.conn.close()
                    except Exception:
                        pass
                self.conn = c
                self.conn_broken = False
                return 'ok'
            if self.exited():
                return 'exited'
            if time.monotonic() > end:
                return 'timeout'

    def stop_listening(self):
        """From now on connects to the port are refused (the port stays reserved by a bound, non-listening socket)."""
        port = self.port
        self.lsock.close()
        r = socket.socket(socket.AF_INET, socket.SOCK_STREAM)
        r.setsockopt(socket.SOL_SOCKET, socket.SO_REUSEADDR, 1)
        r.bind(('127.0.0.1', port))
        self.lsock = r

    def close_conn(self, rst=False):
        if self.conn is not None:
            if rst:
                # abortive close: SO_LINGER 0 makes close() send a RST instead of a FIN (the subject's read fails with
                # ECONNRESET instead of returning end-of-stream)
                try:
                    self.conn.setsockopt(socket.SOL_SOCKET, socket.SO_LINGER, struct.pack('ii', 1, 0))
                except OSError:
                    pass
            else:
                try:
                    self.conn.shutdown(socket.SHUT_RDWR)
                except OSError:
                    pass
            self.conn.close()
            self.conn = None

    def _proc_io(self, field):
        try:
            with open('/proc/%d/io' % self.proc.pid) as f:
                for ln in f:
                    if ln.startswith(field):
                        return int(ln.split()[1])
        except (OSError, ValueError):
            pass
        return None

    def keys(self, data, wait_read=True, timeout=None):
        """one write() to the pty master.  Terminal input travels through a kernel work queue, so the write returning
        does not mean the subject can see the bytes.  /proc/<pid>/io:rchar counts what the subject read(2)s (the tty,
        not the socket, which it recv()s): once it grew by len(data) the subject has taken the whole batch, and it
        handles everything it parsed before its next draw.  The output mark is taken after that.
        -> 'ok' | 'exited' | 'timeout' (the subject does not read its terminal: frozen)"""
        timeout = T_SYNC if timeout is None else timeout
        self._begin_inject()
        r0 = self._proc_io('rchar:') if wait_read else None
        try:
            os.write(self.master, data)
        except OSError:
            pass
        res = 'ok'
        if r0 is not None:
            end = time.monotonic() + timeout
            while True:
                if self.exited():
                    res = 'exited'
                    break
                r = self._proc_io('rchar:')
                if r is None or r >= r0 + len(data):
                    break
                if time.monotonic() > end:
                    res = 'timeout'
                    break
                self.pump(0.002)
        self._end_inject()
        return res

    def inject_send(self, data):
        self._begin_inject()
        ok = self.send(data)
        self._end_inject()
        return ok

    def resize(self, cols, rows):
        self._begin_inject()
        self.cols, self.rows = cols, rows
        fcntl.ioctl(self.master, termios.TIOCSWINSZ, struct.pack('HHHH', rows, cols, 0, 0))
        self.scr.resize(cols, rows)
        try:
            os.kill(self.proc.pid, signal.SIGWINCH)
        except OSError:
            pass
        self._end_inject()

    def wait_exit(self, timeout=None):
        timeout = T_SYNC if timeout is None else timeout
        end = time.monotonic() + timeout
        while not self.exited():
            left = end - time.monotonic()
            if left <= 0:
                return 'timeout'
            self.pump(min(left, 0.05))
        return 'exited'

    def finish(self):
        """after the process has exited (or is to be killed): collect termios + remaining output"""
        alive = not self.exited()
        if alive:
            try:
                self.proc.kill()
            except Exception:
                pass
            try:
                self.proc.wait(5)
            except Exception:
                pass
        try:
            self.termios_after = termios.tcgetattr(self.slave)
        except Exception:
            self.termios_after = None
        try:
            os.close(self.slave)
        except Exception:
            pass
        self.slave = None
        # slave closed everywhere now: read until EIO
        end = time.monotonic() + 2.0
        while time.monotonic() < end:
            r, _, _ = select.select([self.master], [], [], 0.2)
            if not r:
                break
            d = self._read_master()
            if d == b'':
                break
        return alive


def run_radar(script):
    """Execute a radar script. Returns the observation dict (JSON-serialisable)."""
    cols, rows = script.get('size', [80, 24])
    rd = Radar(script.get('argv', []), cols, rows)
    obs = {'binary': 'radar', 'died_at': None, 'frozen_at': None, 'snaps': {}, 'quit_sent': False,
           'exit_code': None, 'killed': False, 'notes': []}
    t0 = time.monotonic()
    try:
        rd.start(listen=not script.get('no_listen', False))
        steps = script['steps']
        # establish: first draw ("Waiting for connection"), accept, first main-loop draw
        if script.get('connect', True):
            a = rd.accept()
            if a == 'timeout':
                raise Machinery('radar never connected to the fake server')
            if a == 'ok':
                if script.get('filler', False) and not rd.exited():
                    # pacing traffic starts before the first draw is awaited: a subject that only draws when something
                    # happens is then driven like any other, and is judged by the scripts that go silent
                    rd.set_filler(True, [bytes.fromhex(h) for h in script.get('filler_cycle', [])] or None)
                w = rd.wait_hb(2)
                if w == 'timeout':
                    # slow machine, or a subject whose main loop does not turn without traffic? ask it to quit: a live
                    # radar honours a quit request (C17) - only one that does is a machinery matter
                    kq = rd.keys(b'q', timeout=T_SYNC)
                    end = time.monotonic() + T_SYNC
                    while not rd.exited() and time.monotonic() < end:
                        rd.pump(0.05)
                    if rd.exited():
                        raise Machinery('no heartbeat after connect (the subject did honour a quit request)')
                    obs['frozen_at'] = 0
                    obs['quit_sent'] = True
                    obs['unresponsive'] = True
                    obs['notes'].append('unresponsive after connect: no draw within %.0f s, quit request %s and not honoured within %.0f s'
                                        % (T_SYNC, 'not read' if kq == 'timeout' else 'read', T_SYNC))
                    steps = []
        if script.get('filler', False) and not rd.exited():
            rd.set_filler(True, [bytes.fromhex(h) for h in script.get('filler_cycle', [])] or None)
        i = -1
        for i, st in enumerate(steps):
            if rd.exited():
                obs['died_at'] = i
                break
            op = st['op']
            if op == 'keys':
                w = rd.keys(bytes.fromhex(st['hex']))
                if w == 'timeout':
                    obs['frozen_at'] = i
                    obs['notes'].append('input-not-read@%d hb=%d t=%.2f' % (i, len(rd.hb_off), time.monotonic() - t0))
                    break
            elif op == 'sync':
                w = rd.wait_hb(max(HB_FRESH, st.get('n', HB_FRESH)))
                if w == 'timeout':
                    obs['frozen_at'] = i
                    obs['notes'].append('timeout@%d op=%s hb=%d t=%.2f' % (i, op, len(rd.hb_off), time.monotonic() - t0))
                    break
                if w == 'exited':
                    obs['died_at'] = i
                    break
            elif op == 'send':
                rd.inject_send(bytes.fromhex(st['hex']))
            elif op == 'gap':
                rd.set_filler(False)
                w = rd.wait_hb(max(HB_FRESH, st.get('n', HB_FRESH)))
                if w == 'timeout':
                    obs['frozen_at'] = i
                    obs['notes'].append('timeout@%d op=%s hb=%d t=%.2f' % (i, op, len(rd.hb_off), time.monotonic() - t0))
                    break
                if w == 'exited':
                    obs['died_at'] = i
                    break
            elif op == 'lines':
                rd.inject_send(bytes.fromhex(st['hex']))
                if rd.marks_ok:
                    w = rd.wait_consumed(len(rd.line_marks))
                    rd.mark = None
                else:
                    w = rd.wait_hb(st['n'] + 5)
                if w == 'timeout':
                    obs['frozen_at'] = i
                    obs['notes'].append('timeout@%d op=%s hb=%d t=%.2f' % (i, op, len(rd.hb_off), time.monotonic() - t0))
                    break
                if w == 'exited':
                    obs['died_at'] = i
                    break
            elif op == 'resize':
                rd.resize(st['cols'], st['rows'])
            elif op == 'filler':
                rd.set_filler(st['on'], [bytes.fromhex(h) for h in st['cycle']] if 'cycle' in st else None)
            elif op == 'age':
                end = time.monotonic() + st['ms'] / 1000.0
                bad = None
                while time.monotonic() < end:
                    w = rd.wait_hb(1)
                    if w != 'ok':
                        bad = w
                        break
                if bad is None:
                    bad = rd.wait_hb(HB_FRESH)
                if bad == 'timeout':
                    obs['frozen_at'] = i
                    obs['notes'].append('timeout@%d op=%s hb=%d t=%.2f' % (i, op, len(rd.hb_off), time.monotonic() - t0))
                    break
                if bad == 'exited':
                    obs['died_at'] = i
                    break
            elif op == 'close':
                rd.set_filler(False)
                rd.close_conn(rst=st.get('rst', False))
            elif op == 'accept':
                a = rd.accept()
                if a == 'timeout':
                    obs['notes'].append('no-reconnect@%d' % i)
                    obs['frozen_at'] = i
                    break
                if a == 'exited':
                    obs['died_at'] = i
                    break
            elif op == 'keys_nowait':
                rd.keys(bytes.fromhex(st['hex']), wait_read=True)
            elif op == 'settle_waiting':
                # after the connection is gone the main loop draws nothing more except the connection screen once;
                # wait until output has been quiet for 0.3 s (no verdict depends on this wait: it only orders the
                # key press after the disconnect was noticed; pressing earlier exercises the ordinary quit path)
                quiet_since = time.monotonic()
                seen = len(rd.raw)
                end = time.monotonic() + T_SYNC
                while time.monotonic() - quiet_since < 0.3 and not rd.exited():
                    rd.pump(0.05)
                    if len(rd.raw) != seen:
                        seen = len(rd.raw)
                        quiet_since = time.monotonic()
                    if time.monotonic() > end:
                        break
                if rd.exited():
                    obs['died_at'] = i
                    break
            elif op == 'stop_listening':
                rd.stop_listening()
            elif op == 'wait_draws':
                # wait until the subject has drawn at least n times in total (the connection screen draws once)
                end = time.monotonic() + T_SYNC
                while len(rd.hb_off) < st['n'] and not rd.exited():
                    if time.monotonic() > end:
                        raise Machinery('subject did not draw %d times within %.0f s' % (st['n'], T_SYNC))
                    rd.pump(0.05)
                if rd.exited():
                    obs['died_at'] = i
                    break
            elif op == 'snap':
                obs['snaps'][st['name']] = {'lines': rd.scr.lines(True), 'size': list(rd.scr.hb_size),
                                            'hb': rd.scr.hb}
            elif op == 'quit':
                rd.set_filler(False)
                obs['quit_sent'] = True
                rd.keys(bytes.fromhex(st['hex']), wait_read=False)
                w = rd.wait_exit()
                if w == 'timeout':
                    obs['notes'].append('no-exit-after-quit')
            elif op == 'wait_exit_or_hb':
                end = time.monotonic() + T_SYNC
                while not rd.exited() and len(rd.hb_off) < 2:
                    if time.monotonic() > end:
                        raise Machinery('subject neither exited nor drew within %.0f s' % T_SYNC)
                    rd.pump(0.05)
            elif op == 'wait_exit':
                w = rd.wait_exit()
                if w == 'timeout':
                    obs['notes'].append('no-exit-after-disconnect')
            else:
                raise Machinery('unknown radar op %r' % op)
        else:
            if rd.exited() and not obs['quit_sent'] and not any(s['op'] == 'wait_exit' for s in steps):
                obs['died_at'] = len(steps)
        obs['hb_total'] = len(rd.hb_off)
        obs['killed'] = rd.finish()
        obs['exit_code'] = rd.exit_code if not obs['killed'] else None
        raw = bytes(rd.raw)
        obs['panic'] = find_panic(raw)
        obs['termios_restored'] = (rd.termios_after is not None and
                                   _termios_key(rd.termios_after) == _termios_key(rd.termios_before))
        if rd.termios_after is not None:
            lf = rd.termios_after[3]
            obs['termios_flags'] = {'icanon': bool(lf & termios.ICANON), 'echo': bool(lf & termios.ECHO)}
        obs['mouse_on'] = sorted(m for m in MOUSE_MODES if rd.scr.modes.get(m))
        obs['mouse_enabled_seen'] = any(m in MOUSE_MODES and on for m, on in rd.scr.mode_log)
        obs['cursor_visible'] = rd.scr.modes.get(25, True)
        obs['tail'] = raw[-300:].decode('utf-8', 'replace')
        obs['final_screen'] = rd.scr.lines(False)
    finally:
        rd.cleanup()
    obs['wall_s'] = round(time.monotonic() - t0, 3)
    return obs


# ---------------------------------------------------------------------------------------------
class Dump1090:
    def __init__(self, argv):
        self.argv = list(argv)
        self.tmp = None
        self.lsock = self.conn = None
        self.proc = None
        self.out = bytearray()
        self.err = bytearray()
        self.exit_code = None
        self.last_send_switches = None
        self.last_send_extra = 0

    def start(self):
        self.tmp = tempfile.mkdtemp(prefix='e4d_', dir=SCRATCH)
        self.lsock = socket.socket(socket.AF_INET, socket.SOCK_STREAM)
        self.lsock.setsockopt(socket.SOL_SOCKET, socket.SO_REUSEADDR, 1)
        self.lsock.bind(('127.0.0.1', 0))
        self.lsock.listen(4)
        self.port = self.lsock.getsockname()[1]
        self.proc = subprocess.Popen(
            [os.path.join(BIN_DIR, '1090'), '--host', '127.0.0.1', '--port', str(self.port)] + self.argv,
            stdin=subprocess.DEVNULL, stdout=subprocess.PIPE, stderr=subprocess.PIPE, cwd=self.tmp,
            env=_env(self.tmp), preexec_fn=_pdeathsig, close_fds=True)
        for f in (self.proc.stdout, self.proc.stderr):
            fl = fcntl.fcntl(f.fileno(), fcntl.F_GETFL)
            fcntl.fcntl(f.fileno(), fcntl.F_SETFL, fl | os.O_NONBLOCK)
        self.lsock.settimeout(T_SYNC)
        try:
            self.conn, _ = self.lsock.accept()
        except socket.timeout:
            raise Machinery('1090 never connected to the fake server')
        self.conn.setsockopt(socket.IPPROTO_TCP, socket.TCP_NODELAY, 1)
        self.conn.settimeout(T_SYNC)

    def exited(self):
        if self.exit_code is None:
            rc = self.proc.poll()
            if rc is not None:
                self.exit_code = rc
        return self.exit_code is not None

    def pump(self, timeout):
        fds = [f for f in (self.proc.stdout, self.proc.stderr) if f is not None and not f.closed]
        r, _, _ = select.select(fds, [], [], max(0.0, timeout))
        for f in r:
            try:
                d = os.read(f.fileno(), 65536)
            except BlockingIOError:
                continue
            if d:
                (self.out if f is self.proc.stdout else self.err).extend(d)
            elif d == b'':
                # EOF on that pipe: stop selecting on it
                if f is self.proc.stdout:
                    self._eof_out = True
                else:
                    self._eof_err = True
        self.exited()
        return bool(r)

    def lines(self):
        return self.out.decode('utf-8', 'replace').split('\n')[:-1]

    def wait_for(self, pred, timeout=None):
        timeout = T_SYNC if timeout is None else timeout
        end = time.monotonic() + timeout
        while True:
            if pred(self.lines()):
                return 'ok'
            if self.exited():
                # collect what is left
                for _ in range(20):
                    if not self.pump(0.02):
                        break
                return 'ok' if pred(self.lines()) else 'exited'
            left = end - time.monotonic()
            if left <= 0:
                return 'timeout'
            self.pump(min(left, 0.05))

    def vol_switches(self):
        """voluntary context switches of the (single-threaded) subject: +1 every time it blocks in recv()"""
        try:
            with open('/proc/%d/status' % self.proc.pid) as f:
                for ln in f:
                    if ln.startswith('voluntary_ctxt_switches'):
                        return int(ln.split()[1])
        except (OSError, ValueError):
            pass
        return None

    def gap(self, seconds):
        """read-timeout gap: at least `seconds` (5x the 50 ms read timeout) AND, causally, the subject has blocked in
        recv() at least 3 + stale more times than before the gap (1: the wait that times out on the partial line,
        2: the next loop iteration - which starts by clearing the buffer - blocks again, +1 for a block that
        predates the landing of the data).  Returns 'ok' | 'exited' | 'timeout'."""
        v0 = self.last_send_switches
        extra = self.last_send_extra
        end = time.monotonic() + seconds
        hard = time.monotonic() + T_SYNC
        last_v, last_change = None, time.monotonic()
        while True:
            now = time.monotonic()
            if self.exited():
                return 'exited'
            v = self.vol_switches()
            if v != last_v:
                last_v, last_change = v, now
            causal = v0 is None or v is None or v >= v0 + 3 + extra
            if now >= end and causal:
                return 'ok'
            # a subject without a read timeout sits in one blocking recv(): no context switch for 10 timeout periods.
            # For it the gap is simply a delay - nothing to wait for (a subject with the 50 ms timeout switches 10 times)
            if now >= end and now - last_change >= 0.5:
                return 'ok'
            if now >= hard:
                return 'timeout'
            self.pump(min(0.02, max(0.0, end - now)) if now < end else 0.02)

    def send(self, data):
        t0 = time.monotonic()
        self.last_send_switches = self.vol_switches()
        try:
            self.conn.sendall(data)
            ok = True
        except OSError:
            ok = False
        self.last_send_extra = int((time.monotonic() - t0) / 0.050)
        return ok

    def cleanup(self):
        try:
            if self.proc is not None and self.proc.poll() is None:
                try:
                    self.proc.kill()
                except Exception:
                    pass
                try:
                    self.proc.wait(5)
                except Exception:
                    pass
        finally:
            for s in (self.conn, self.lsock):
                try:
                    if s is not None:
                        s.close()
                except Exception:
                    pass
            if self.proc is not None:
                for f in (self.proc.stdout, self.proc.stderr):
                    try:
                        f.close()
                    except Exception:
                        pass
            if self.tmp:
                shutil.rmtree(self.tmp, ignore_errors=True)


def run_1090(script):
    d = Dump1090(script.get('argv', []))
    obs = {'binary': '1090', 'died_at': None, 'stalled_at': None, 'exit_code': None, 'notes': []}
    t0 = time.monotonic()
    try:
        d.start()
        for i, st in enumerate(script['steps']):
            if d.exited():
                obs['died_at'] = i
                break
            op = st['op']
            if op == 'send':
                d.send(bytes.fromhex(st['hex']))
            elif op == 'gap':
                g = d.gap(GAP_1090_S)
                if g == 'timeout':
                    raise Machinery('1090 did not block in recv() during a gap (no read timeout observable)')
            elif op == 'close':
                try:
                    d.conn.shutdown(socket.SHUT_RDWR)
                except OSError:
                    pass
                d.conn.close()
                d.conn = None
            elif op == 'expect':
                want, after = st['line'], st.get('after', 0)

                def pred(ls, want=want, after=after):
                    for j in range(len(ls) - 1, -1, -1):
                        if ls[j] == want:
                            return len(ls) - 1 - j >= after
                    return False
                w = d.wait_for(pred)
                if w == 'timeout':
                    obs['stalled_at'] = i
                    break
                if w == 'exited':
                    obs['died_at'] = i
                    break
            elif op == 'settle':
                # after a close there is nothing to wait for: give a panic the chance to surface
                end = time.monotonic() + st.get('ms', 300) / 1000.0
                while time.monotonic() < end and not d.exited():
                    d.pump(0.02)
            else:
                raise Machinery('unknown 1090 op %r' % op)
        d.pump(0)
        obs['alive_at_end'] = not d.exited()
        if d.exited():
            for _ in range(20):
                if not d.pump(0.02):
                    break
        obs['exit_code'] = d.exit_code
        obs['stdout'] = d.lines()
        err = bytes(d.err)
        obs['panic'] = find_panic(err)
        obs['stderr_tail'] = err[-300:].decode('utf-8', 'replace')
    finally:
        d.cleanup()
    obs['wall_s'] = round(time.monotonic() - t0, 3)
    return obs


def run_script(script):
    b = script['binary']
    if b == 'radar':
        return run_radar(script)
    if b == '1090':
        return run_1090(script)
    raise Machinery('unknown binary %r' % b)
