"""C17 - no operator action or terminal size crashes radar; quit restores the terminal.

Stateless bounded-depth exploration of the real binary: every event sequence up to the stated depth over a
finite alphabet x contexts x delivery modes is compiled to a step script, executed under a pty, and judged.
"""

import itertools
import json

import e4lib
from e4lib import hexs

ESC = b'\x1b'

KEYS = {
    'F1': ESC + b'[11~', 'F2': ESC + b'[12~', 'F3': ESC + b'[13~', 'F4': ESC + b'[14~', 'F5': ESC + b'[15~',
    'Tab': b'\t', 'Enter': b'\r', 'Up': ESC + b'[A', 'Down': ESC + b'[B', 'Right': ESC + b'[C', 'Left': ESC + b'[D',
    'q': b'q', 'CtrlC': b'\x03', 'l': b'l', 'i': b'i', 'h': b'h', 't': b't', 'n': b'n', '-': b'-', '+': b'+',
    'x': b'x',   # unbound key
    # keys that have no binding at all: further function keys, navigation keys, a control character, a shifted key
    'F6': ESC + b'[17~', 'F12': ESC + b'[24~', 'Home': ESC + b'[H', 'PgDn': ESC + b'[6~', 'Del': ESC + b'[3~', 'Ins': ESC + b'[2~',
    'ShiftTab': ESC + b'[Z', 'CtrlL': b'\x0c', 'Q': b'Q', 'Esc': ESC,
}


def sgr(b, col0, row0, press=True):
    return ESC + ('[<%d;%d;%d%s' % (b, col0 + 1, row0 + 1, 'M' if press else 'm')).encode()


# positions (0-based col,row) read off the 80x24 layout of the pinned tree (tab titles: Map 3-5, Coverage 9-16,
# Airplanes(n) 20-31, Stats 35-39, Help 43-46 on row 2; touchscreen buttons: col 1-10, rows 4-9/10-15/16-22)
MOUSE = {
    'ClkMap': sgr(0, 4, 2), 'ClkCov': sgr(0, 10, 2), 'ClkAir': sgr(0, 22, 2), 'ClkStats': sgr(0, 37, 2),
    'ClkHelp': sgr(0, 44, 2), 'ClkOut': sgr(0, 60, 10),
    'TsOut': sgr(0, 5, 6), 'TsIn': sgr(0, 5, 12), 'TsReset': sgr(0, 5, 18),
    'DragC': sgr(32, 40, 12), 'DragBar': sgr(32, 40, 1), 'DragL': sgr(32, 0, 14), 'DragFar': sgr(32, 70, 20),
    'DragR0': sgr(32, 40, 0), 'DragR2': sgr(32, 40, 2), 'DragR3': sgr(32, 40, 3), 'DragR4': sgr(32, 40, 4),
    'Rel': sgr(0, 40, 12, press=False),
    'ScrUp': sgr(64, 40, 12), 'ScrDn': sgr(65, 40, 12), 'RClk': sgr(2, 40, 12),
}

SIZES = [(1, 1), (2, 2), (3, 5), (10, 5), (49, 3), (80, 24), (200, 60)]   # cols x rows
RESIZE = {'R%dx%d' % s: s for s in SIZES}
TRAFFIC = ['New', 'Pos', 'Pos2', 'Far', 'Expire', 'Junk', 'PosNoAlt']
JUNK_LINES = b'*;\n;\n*\n\n*zz;\n*00;\n*00000000000000;\n*8d;\n'

SIGMA = (['F1', 'F2', 'F3', 'F4', 'F5', 'Tab', 'l', 'i', 'h', 't', 'n', '-', '+', 'Up', 'Down', 'Left', 'Right',
          'Enter', 'x', 'F6', 'F12', 'Home', 'PgDn', 'Del', 'Ins', 'ShiftTab', 'CtrlL', 'Q', 'Esc'] + list(MOUSE) + list(RESIZE) + TRAFFIC)
QUITS = ['q', 'CtrlC']
# reduced alphabet for depth 3 (one representative per handler branch)
SIGMA3 = ['F1', 'F3', 'F4', 'Tab', 'n', '-', 'Up', 'Down', 'Enter', 'ClkAir', 'ClkOut', 'DragC', 'DragFar',
          'Rel', 'ScrUp', 'R1x1', 'R80x24', 'New', 'Pos']
SUB_AIR = ['F3', 'Up', 'Down', 'Enter', 'Expire', 'New']

TRACKED = ['empty', 'one_nopos', 'one_pos', 'three_mixed']
OPTS = {
    'default': [],
    'touchscreen': ['--touchscreen'],
    'disable_all': ['--disable-lat-long', '--disable-callsign', '--disable-icao', '--disable-heading', '--disable-track'],
    'locations2': ['--locations', '(home,35.1,-80.1)', '(far,36,-79)'],
    'ft0': ['--filter-time=0'],
    'limit_parsing': ['--limit-parsing'],
}

CLI = [
    # (name, argv (complete), must_reject)
    ('lat=x', ['--lat=x', '--long=-80'], True),
    ('lat-missing-value', ['--long=-80', '--lat'], True),
    ('lat-absent', ['--long=-80'], True),
    ('long=x', ['--lat=35', '--long=x'], True),
    ('long=empty', ['--lat=35', '--long='], True),
    ('port=70000', ['--lat=35', '--long=-80', '--port=70000'], True),
    ('port=x', ['--lat=35', '--long=-80', '--port=x'], True),
    ('port=-1', ['--lat=35', '--long=-80', '--port=-1'], True),
    ('host=a.b', ['--lat=35', '--long=-80', '--host=a.b'], True),
    ('host=999.1.1.1', ['--lat=35', '--long=-80', '--host=999.1.1.1'], True),
    ('scale-no-value', ['--lat=35', '--long=-80', '--scale'], True),
    ('scale=x', ['--lat=35', '--long=-80', '--scale=x'], True),
    ('filter-time=-1', ['--lat=35', '--long=-80', '--filter-time=-1'], True),
    ('filter-time=x', ['--lat=35', '--long=-80', '--filter-time=x'], True),
    ('filter-time=1.5', ['--lat=35', '--long=-80', '--filter-time=1.5'], True),
    ('max-range=x', ['--lat=35', '--long=-80', '--max-range=x'], True),
    ('locations-no-value', ['--lat=35', '--long=-80', '--locations'], True),
    ('locations=()', ['--lat=35', '--long=-80', '--locations', '()'], True),
    ('locations=empty', ['--lat=35', '--long=-80', '--locations', ''], True),
    ('locations=(a)', ['--lat=35', '--long=-80', '--locations', '(a)'], True),
    ('locations=(a,1)', ['--lat=35', '--long=-80', '--locations', '(a,1)'], True),
    ('locations=(a,1,2,3)', ['--lat=35', '--long=-80', '--locations', '(a,1,2,3)'], False),
    ('locations=(a,b,c)', ['--lat=35', '--long=-80', '--locations', '(a,b,c)'], True),
    ('locations=(a,1,c)', ['--lat=35', '--long=-80', '--locations', '(a,1,c)'], True),
    ('locations=ok+(b)', ['--lat=35', '--long=-80', '--locations', '(a,1,2)', '(b)'], True),
    ('locations=(', ['--lat=35', '--long=-80', '--locations', '('], True),
    ('locations=)', ['--lat=35', '--long=-80', '--locations', ')'], True),
    ('locations=((', ['--lat=35', '--long=-80', '--locations', '(('], True),
    ('locations=fullwidth-paren', ['--lat=35', '--long=-80', '--locations', '(a,1,2\uff09'], True),
    ('locations=utf8-name-only', ['--lat=35', '--long=-80', '--locations', '\u00e9'], True),
    ('locations=(utf8,1', ['--lat=35', '--long=-80', '--locations', '(\u00e9,1'], True),
    ('locations=utf8-ok', ['--lat=35', '--long=-80', '--locations', '(\u00e9t\u00e9,1,2)'], False),
    ('unknown-flag', ['--lat=35', '--long=-80', '--bogus'], True),
    ('touchscreen=1', ['--lat=35', '--long=-80', '--touchscreen=1'], True),
]


class Feed:
    """the frames used by contexts and traffic letters (generated once by `vh mkfeed`)"""

    def __init__(self):
        specs = []
        names = []

        def add(name, spec):
            names.append(name)
            specs.append(spec)
        a1, a2, a3 = 'a00001', 'a00002', 'a00003'
        add('a1_ident', {'kind': 'ident', 'icao': a1, 'callsign': 'ONE'})
        add('a1_pos0', {'kind': 'pos', 'icao': a1, 'lat': 35.2, 'lon': -80.0, 'alt': 10000, 'odd': 0})
        add('a1_pos1', {'kind': 'pos', 'icao': a1, 'lat': 35.2, 'lon': -80.0, 'alt': 10000, 'odd': 1})
        add('a1_vel', {'kind': 'vel', 'icao': a1, 'east': 100, 'north': -200, 'vrate': -640})
        # a second fix 3 km further north (pairs with the first), and a report 1100 km away (clears the record)
        add('a1_pos2_0', {'kind': 'pos', 'icao': a1, 'lat': 35.21, 'lon': -80.0, 'alt': 10100, 'odd': 0})
        add('a1_pos2_1', {'kind': 'pos', 'icao': a1, 'lat': 35.21, 'lon': -80.0, 'alt': 10100, 'odd': 1})
        add('a1_far_1', {'kind': 'pos', 'icao': a1, 'lat': 45.0, 'lon': -80.0, 'alt': 30000, 'odd': 1})
        # position reports that carry no altitude (altitude code 0) / an altitude of exactly 0 ft (Gillham code 0x20a)
        add('a1_noalt_0', {'kind': 'pos', 'icao': a1, 'lat': 35.2, 'lon': -80.0, 'ac12': 0, 'odd': 0})
        add('a1_noalt_1', {'kind': 'pos', 'icao': a1, 'lat': 35.2, 'lon': -80.0, 'ac12': 0, 'odd': 1})
        add('a1_alt0_0', {'kind': 'pos', 'icao': a1, 'lat': 35.2, 'lon': -80.0, 'ac12': 0x20a, 'odd': 0})
        add('a2_ident', {'kind': 'ident', 'icao': a2, 'callsign': 'TWO'})
        add('a3_pos0', {'kind': 'pos', 'icao': a3, 'lat': 34.7, 'lon': -80.4, 'alt': 32000, 'odd': 0})
        add('a3_pos1', {'kind': 'pos', 'icao': a3, 'lat': 34.7, 'lon': -80.4, 'alt': 32000, 'odd': 1})
        for k in range(8):
            add('new%d' % k, {'kind': 'ident', 'icao': 'b0000%d' % k, 'callsign': 'NEW%d' % k})
        lines = e4lib.mkfeed(specs)
        self.l = {n: (ln + '\n').encode() for n, ln in zip(names, lines)}

    def context(self, tracked):
        """-> (list of line names sent at start, list of keep-alive line names)"""
        if tracked == 'empty':
            return [], []
        if tracked == 'one_nopos':
            return ['a1_ident'], ['a1_ident']
        if tracked == 'one_pos':
            return ['a1_ident', 'a1_pos0', 'a1_pos1'], ['a1_ident']
        if tracked == 'three_mixed':
            return (['a1_ident', 'a1_pos0', 'a1_pos1', 'a1_vel', 'a2_ident', 'a3_pos0', 'a3_pos1'],
                    ['a1_ident', 'a2_ident', 'a3_pos0'])
        raise ValueError(tracked)


def compile_script(feed, tracked, opts, size, delivery, seq, quit_key='q'):
    """-> script dict"""
    uses_expire = 'Expire' in seq
    argv = list(e4lib.BASE_ARGV) + list(OPTS[opts])
    if uses_expire:
        argv.append('--filter-time=1')
    ctx_lines, keep = feed.context(tracked)
    keep = list(keep)
    filler_line = '2a35646162336431376434626132393b0a'   # *5dab3d17d4ba29;\n
    steps = []

    def cycle():
        return [filler_line] + ([hexs(feed.l[k]) for k in keep] if uses_expire else [])

    if ctx_lines:
        steps.append({'op': 'lines', 'hex': hexs(b''.join(feed.l[n] for n in ctx_lines)), 'n': len(ctx_lines)})
    else:
        steps.append({'op': 'sync', 'n': 2})
    new_count = 0
    pend = b''
    pend_names = []

    def flush():
        nonlocal pend, pend_names
        if pend:
            steps.append({'op': 'keys', 'hex': hexs(pend), 'letters': pend_names})
            steps.append({'op': 'sync', 'n': 2})
            pend = b''
            pend_names = []

    for letter in seq:
        if letter in KEYS or letter in MOUSE:
            data = KEYS.get(letter) or MOUSE[letter]
            pend += data
            pend_names = pend_names + [letter]
            if delivery == 'separated':
                flush()
        else:
            flush()
            if letter in RESIZE:
                c, r = RESIZE[letter]
                steps.append({'op': 'resize', 'cols': c, 'rows': r, 'letters': [letter]})
                steps.append({'op': 'sync', 'n': 2})
            elif letter == 'New':
                name = 'new%d' % new_count
                new_count += 1
                steps.append({'op': 'lines', 'hex': hexs(feed.l[name]), 'n': 1, 'letters': [letter]})
                keep.append(name)
                if uses_expire:
                    steps.append({'op': 'filler', 'on': True, 'cycle': cycle()})
            elif letter == 'Pos':
                steps.append({'op': 'lines', 'hex': hexs(feed.l['a1_pos0'] + feed.l['a1_pos1']), 'n': 2,
                              'letters': [letter]})
                if 'a1_ident' not in keep:
                    keep.append('a1_ident')
                if uses_expire:
                    steps.append({'op': 'filler', 'on': True, 'cycle': cycle()})
            elif letter == 'Pos2':
                steps.append({'op': 'lines', 'hex': hexs(feed.l['a1_pos2_0'] + feed.l['a1_pos2_1']), 'n': 2,
                              'letters': [letter]})
                if 'a1_ident' not in keep:
                    keep.append('a1_ident')
            elif letter == 'Far':
                steps.append({'op': 'lines', 'hex': hexs(feed.l['a1_far_1']), 'n': 1, 'letters': [letter]})
                if 'a1_ident' not in keep:
                    keep.append('a1_ident')
            elif letter == 'PosNoAlt':
                # a fix whose even report has no altitude, then one whose odd report has none, then 0 ft
                steps.append({'op': 'lines', 'hex': hexs(feed.l['a1_noalt_0'] + feed.l['a1_pos1'] + feed.l['a1_pos0'] + feed.l['a1_noalt_1']
                                                         + feed.l['a1_alt0_0'] + feed.l['a1_pos1'] + feed.l['a1_noalt_0']), 'n': 7,
                              'letters': [letter]})
                if 'a1_ident' not in keep:
                    keep.append('a1_ident')
            elif letter == 'Junk':
                # lines that are not frames: radar has to skip them whatever its options are
                steps.append({'op': 'lines', 'hex': hexs(JUNK_LINES), 'n': JUNK_LINES.count(b'\n'), 'letters': [letter]})
            elif letter == 'Expire':
                keep = []
                steps.append({'op': 'filler', 'on': True, 'cycle': [filler_line], 'letters': [letter]})
                steps.append({'op': 'age', 'ms': 1600})
            else:
                raise ValueError(letter)
    flush()
    steps.append({'op': 'snap', 'name': 'final'})
    steps.append({'op': 'quit', 'hex': hexs(KEYS[quit_key]), 'letters': [quit_key]})
    key = 'radar|%dx%d|ctx=%s|opts=%s|%s|%s|%s' % (size[0], size[1], tracked, opts, delivery, ','.join(seq) or 'none',
                                                 quit_key)
    ctx_keep = feed.context(tracked)[1]
    return {'binary': 'radar', 'oracle': 'c17', 'key': key, 'argv': argv, 'size': list(size), 'filler': True,
            'filler_cycle': [filler_line] + ([hexs(feed.l[k]) for k in ctx_keep] if uses_expire else []),
            'delivery': delivery, 'events': list(seq) + [quit_key], 'steps': steps,
            'expected': 'alive until quit; exit 0; no panic; termios restored (ICANON, ECHO); mouse reporting off; '
                        'cursor visible'}


def compile_waiting(kind, opts_name, argv_extra, pre_keys, quit_key):
    """Quit requested while radar shows "Waiting for connection": at start-up (no server) or, with --retry-tcp,
    after an established connection was lost and cannot be re-made."""
    argv = list(e4lib.BASE_ARGV) + list(argv_extra)
    steps = []
    if kind == 'startup':
        steps.append({'op': 'wait_draws', 'n': 1})
    else:
        steps.append({'op': 'sync', 'n': 2})
        steps.append({'op': 'stop_listening'})
        before = 3
        steps.append({'op': 'close'})
        # the reconnect screen is one more draw after the main loop stops drawing; give the loop time to get there
        steps.append({'op': 'settle_waiting'})
    for k in pre_keys:
        steps.append({'op': 'keys_nowait', 'hex': hexs(KEYS[k]), 'letters': [k]})
    steps.append({'op': 'quit', 'hex': hexs(KEYS[quit_key]), 'letters': [quit_key]})
    key = 'radar|80x24|waiting-%s|opts=%s|%s|%s' % (kind, opts_name, ','.join(pre_keys) or 'none', quit_key)
    return {'binary': 'radar', 'oracle': 'c17', 'key': key, 'argv': argv, 'size': [80, 24], 'filler': False,
            'connect': kind != 'startup', 'no_listen': kind == 'startup', 'events': list(pre_keys) + [quit_key], 'steps': steps,
            'expected': 'alive until quit; exit 0; no panic; termios restored (ICANON, ECHO); mouse reporting off; '
                        'cursor visible'}


def compile_cli(name, argv, must_reject):
    return {'binary': 'radar', 'oracle': 'c17cli', 'key': 'radar-cli|%s' % name, 'argv': argv, 'size': [80, 24],
            'filler': False, 'connect': False, 'no_port': False, 'must_reject': must_reject, 'events': [name],
            'steps': [{'op': 'wait_exit_or_hb'}],
            'expected': 'exit status 2 with an `error:` line (usage error), never a panic'}


def judge(script, obs):
    probs = []
    cls = None
    if obs.get('panic'):
        p = obs['panic']
        f = p['file'].split('/')[-1]
        probs.append('panic=%s:%s' % (f, p['msg']))
        cls = 'panic@%s:%d' % (f, p['line'])
    if obs.get('died_at') is not None and not obs.get('quit_sent'):
        probs.append('exit-before-quit=%s' % obs.get('exit_code'))
        cls = cls or 'exit-before-quit'
    elif obs.get('unresponsive'):
        probs.append('quit-not-honoured-without-traffic')
        cls = cls or 'unresponsive'
    elif obs.get('frozen_at') is not None:
        probs.append('no-heartbeat')
        cls = cls or 'frozen'
    elif obs.get('killed'):
        probs.append('no-exit-after-quit')
        cls = cls or 'no-exit-after-quit'
    elif obs.get('exit_code') != 0:
        probs.append('exit=%s' % obs.get('exit_code'))
        cls = cls or 'exit-status'
    if not obs.get('termios_restored'):
        fl = obs.get('termios_flags') or {}
        probs.append('termios=%s' % ('raw' if not fl.get('icanon') else 'changed'))
        cls = cls or 'termios'
    if obs.get('mouse_on'):
        probs.append('mouse-left-on')
        cls = cls or 'mouse'
    if not obs.get('cursor_visible'):
        probs.append('cursor-hidden')
        cls = cls or 'cursor'
    snap = obs.get('snaps', {}).get('final')
    screens = []
    if snap:
        screens.append(e4lib.digest16(json.dumps(snap['lines'])))
    summary = {'events': len(script.get('events', [])), 'screens': screens}
    if not probs:
        summary['outcome'] = 'ok exit=0'
        return None, summary
    observed = '|'.join(probs)
    summary['outcome'] = observed
    died = obs.get('died_at')
    detail = {'died_at_step': died, 'step': script['steps'][died - 1] if died and died - 1 < len(script['steps']) else None,
              'tail': obs.get('tail', '')[-200:]}
    return {'class': 'C17/' + cls, 'observed': observed, 'expected': script['expected'], 'detail': detail}, summary


def judge_cli(script, obs):
    summary = {'events': 1, 'screens': []}
    probs = []
    cls = None
    tail = obs.get('tail', '')
    if obs.get('panic'):
        p = obs['panic']
        f = p['file'].split('/')[-1]
        probs.append('panic=%s:%s' % (f, p['msg']))
        cls = 'cli-panic@%s:%d' % (f, p['line'])
    accepted = obs.get('hb_total', 0) > 0 or obs.get('killed')
    if accepted:
        if script.get('must_reject'):
            probs.append('accepted')
            cls = cls or 'cli-accepted'
    else:
        if obs.get('exit_code') != 2:
            probs.append('exit=%s' % obs.get('exit_code'))
            cls = cls or 'cli-exit-status'
        if 'error:' not in tail and 'error:' not in '\n'.join(obs.get('final_screen', [])):
            probs.append('no-error-line')
            cls = cls or 'cli-no-error-line'
    if not probs:
        summary['outcome'] = 'cli accepted' if accepted else 'cli usage-error exit=2'
        return None, summary
    observed = '|'.join(probs)
    summary['outcome'] = observed
    return {'class': 'C17/' + cls, 'observed': observed, 'expected': script['expected'],
            'detail': {'tail': tail[-300:]}}, summary


e4lib.register_judge('c17', judge)
e4lib.register_judge('c17cli', judge_cli)


def enumerate_scripts(tier, feed):
    """-> (list of scripts, bound description dict)"""
    out = []
    seen = set()

    def add(tracked, opts, size, delivery, seq, quit_key='q'):
        s = compile_script(feed, tracked, opts, size, delivery, seq, quit_key)
        if s['key'] not in seen:
            seen.add(s['key'])
            out.append(s)

    opts4 = ['default', 'touchscreen', 'disable_all', 'locations2']
    bound = {'alphabet_size': len(SIGMA), 'alphabet': SIGMA, 'quit_keys': QUITS, 'sizes': ['%dx%d' % s for s in SIZES],
             'tracked_sets': TRACKED, 'option_sets': list(OPTS), 'delivery': ['batched', 'separated'], 'parts': {}}
    big = (80, 24)

    # depth 0 (just quit) and depth 1 at 80x24 in every context, both quit keys at depth 0
    n0 = len(out)
    for tr in TRACKED:
        for op in list(OPTS):
            for qk in QUITS:
                add(tr, op, big, 'separated', [], qk)
            for a in SIGMA:
                if a == 'Expire' and op == 'ft0':
                    continue   # --filter-time=0 already expires everything at once
                add(tr, op, big, 'separated', [a])
    bound['parts']['depth<=1 @80x24 x tracked(4) x opts(5)'] = len(out) - n0

    # quit while the connection screen is shown (start-up without a server; lost connection with --retry-tcp)
    n0 = len(out)
    for kind, extra, oname in (('startup', [], 'default'), ('startup', ['--retry-tcp'], 'retry'), ('lost', ['--retry-tcp'], 'retry')):
        for qk in QUITS:
            for pre in ([], ['x'], ['F3'], ['Down', 'Enter']):
                sc = compile_waiting(kind, oname, extra, [k for k in pre if k in KEYS], qk)
                if sc['key'] not in seen:
                    seen.add(sc['key'])
                    out.append(sc)
    bound['parts']['quit on the connection screen (start-up / lost connection) x quit keys x 4 key prefixes'] = len(out) - n0

    n0 = len(out)
    if tier == 'quick':
        # every letter at every other start size, contexts {empty, three_mixed} x {default, touchscreen}
        for size in SIZES:
            if size == big:
                continue
            for tr in ('empty', 'three_mixed'):
                for op in ('default', 'touchscreen'):
                    add(tr, op, size, 'separated', [], 'CtrlC')
                    for a in SIGMA:
                        add(tr, op, size, 'separated', [a])
        bound['parts']['depth<=1 @other sizes(6) x {empty,three_mixed} x {default,touchscreen}'] = len(out) - n0
    else:
        for size in SIZES:
            if size == big:
                continue
            for tr in TRACKED:
                for op in opts4:
                    add(tr, op, size, 'separated', [], 'CtrlC')
                    for a in SIGMA:
                        add(tr, op, size, 'separated', [a])
        bound['parts']['depth<=1 @other sizes(6) x tracked(4) x opts(4)'] = len(out) - n0

    # depth 2
    n0 = len(out)
    if tier == 'quick':
        sub = [a for a in SUB_AIR if a != 'Expire']
        for tr in TRACKED:
            for dl in ('batched', 'separated'):
                for seq in itertools.product(sub, repeat=2):
                    add(tr, 'default', big, dl, list(seq))
        bound['parts']['depth 2 over {F3,Up,Down,Enter,New} @80x24 x tracked(4) x delivery(2)'] = len(out) - n0
        n0 = len(out)
        for tr in ('empty', 'one_pos'):
            for seq in itertools.product(SUB_AIR, repeat=2):
                if 'Expire' in seq:
                    add(tr, 'default', big, 'batched', list(seq))
        bound['parts']['depth 2 with Expire over the Airplanes sub-alphabet x {empty,one_pos}'] = len(out) - n0
        n0 = len(out)
        # depth 3 over the key-only part of the sub-alphabet (finds the batched nth().unwrap())
        sub3 = ['F3', 'Up', 'Down', 'Enter']
        for tr in ('empty', 'one_pos', 'three_mixed'):
            for dl in ('batched', 'separated'):
                for seq in itertools.product(sub3, repeat=3):
                    if seq[0] == 'F3':
                        add(tr, 'default', big, dl, list(seq))
        bound['parts']['depth 3 F3.{F3,Up,Down,Enter}^2 x {empty,one_pos,three_mixed} x delivery(2)'] = len(out) - n0
        n0 = len(out)
        for tr in ('one_pos',):
            for dl in ('batched', 'separated'):
                for seq in itertools.product(['Up', 'Down', 'Enter'], repeat=3):
                    add(tr, 'default', big, dl, ['F3'] + list(seq))
        bound['parts']['depth 4 F3.{Up,Down,Enter}^3 x one_pos x delivery(2)'] = len(out) - n0
        # a selection that outlives the aircraft: select, let everything expire, act on the stale selection
        n0 = len(out)
        for tr in ('one_pos', 'three_mixed'):
            for sel in (['Down'], ['Down', 'Down'], ['Up']):
                add(tr, 'default', big, 'separated', ['F3'] + sel + ['Expire'])
                for after in ('Up', 'Down', 'Enter', 'F1', 'New'):
                    add(tr, 'default', big, 'separated', ['F3'] + sel + ['Expire', after])
        bound['parts']['F3.{Down,DownDown,Up}.Expire.{-,Up,Down,Enter,F1,New} x {one_pos,three_mixed}'] = len(out) - n0
        # touchscreen layout: a tab switch (the button column exists on the Map / Coverage tabs only) followed by a click
        n0 = len(out)
        clicks = ['ClkMap', 'ClkCov', 'ClkAir', 'ClkStats', 'ClkHelp', 'TsOut', 'TsIn', 'TsReset', 'DragC']
        for tr in ('empty', 'one_pos'):
            for dl in ('batched', 'separated'):
                for tab in ('F2', 'F3', 'F4', 'F5', 'Tab'):
                    for ck in clicks:
                        add(tr, 'touchscreen', big, dl, [tab, ck])
        # reports without an altitude, looked at on every tab
        for tr in ('empty', 'one_pos'):
            for tab in ('F1', 'F2', 'F3', 'F4', 'F5'):
                add(tr, 'default', big, 'separated', ['PosNoAlt', tab])
                add(tr, 'default', big, 'separated', [tab, 'PosNoAlt'])
        # --limit-parsing with the traffic letters (the option changes how feed lines are filtered before decoding)
        for tr in ('empty', 'three_mixed'):
            for seq in ([], ['New'], ['Pos'], ['F3', 'New'], ['Expire'], ['Junk'], ['Junk', 'New']):
                add(tr, 'limit_parsing', big, 'separated', seq)
        bound['parts']['touchscreen: {F2,F3,F4,F5,Tab} x 9 clicks x {empty,one_pos} x delivery(2); --limit-parsing x traffic'] = len(out) - n0
        # position histories with a cleared record in the middle, drawn on every tab
        n0 = len(out)
        hist3 = list(itertools.product(['Pos', 'Pos2', 'Far'], repeat=3)) + list(itertools.product(['Pos', 'Pos2', 'Far'], repeat=2))
        for tr in ('empty', 'one_pos'):
            for seq in hist3:
                add(tr, 'default', big, 'separated', list(seq))
        for seq in (('Pos', 'Pos2', 'Far', 'Pos'), ('Pos2', 'Pos', 'Far', 'Pos2'), ('Pos', 'Pos2', 'Far', 'Pos', 'Pos2')):
            for tab in ('F1', 'F2', 'F3', 'F4'):
                add('empty', 'default', big, 'separated', list(seq) + [tab])
        bound['parts']['position histories {Pos,Pos2,Far}^<=3 x {empty,one_pos} + 3 longer ones x 4 tabs'] = len(out) - n0
    else:
        for tr in TRACKED:
            for dl in ('batched', 'separated'):
                for seq in itertools.product(SIGMA, repeat=2):
                    add(tr, 'default', big, dl, list(seq))
        bound['parts']['depth 2 over Sigma @80x24 x tracked(4) x opts{default} x delivery(2)'] = len(out) - n0
        n0 = len(out)
        for tr in ('empty', 'three_mixed'):
            for op in ('touchscreen', 'disable_all', 'locations2'):
                for seq in itertools.product(SIGMA, repeat=2):
                    add(tr, op, big, 'batched', list(seq))
        bound['parts']['depth 2 over Sigma @80x24 x {empty,three_mixed} x opts{touchscreen,disable_all,locations2} x batched'] = len(out) - n0
        n0 = len(out)
        for tr in ('empty', 'three_mixed'):
            for dl in ('batched', 'separated'):
                for seq in itertools.product(SIGMA3, repeat=3):
                    add(tr, 'default', big, dl, list(seq))
        bound['parts']['depth 3 over Sigma3(%d) @80x24 x {empty,three_mixed} x delivery(2)' % len(SIGMA3)] = len(out) - n0
        bound['sigma3'] = SIGMA3
        n0 = len(out)
        for dl in ('batched', 'separated'):
            for tr in ('empty', 'one_pos', 'three_mixed'):
                for seq in itertools.product(SUB_AIR, repeat=3):
                    add(tr, 'default', big, dl, list(seq))
            for tr in ('empty', 'one_pos'):
                for seq in itertools.product(SUB_AIR, repeat=4):
                    add(tr, 'default', big, dl, list(seq))
        bound['parts']['depth 3 over {F3,Up,Down,Enter,Expire,New} x {empty,one_pos,three_mixed} + depth 4 x {empty,one_pos}, @80x24 x delivery(2)'] = len(out) - n0

    n0 = len(out)
    for name, argv, rej in CLI:
        out.append(compile_cli(name, argv, rej))
    bound['parts']['cli alphabet'] = len(out) - n0
    return out, bound


ASSUMPTIONS = [
    'black box: the real radar binary under a pty + fake TCP server; verdicts depend on heartbeat-ordered events only',
    "synchronisation is causal, never a sleep: terminal input counts as delivered when /proc/<pid>/io:rchar of the subject grew by the bytes written; feed bytes when the subject's TCP acknowledged them (TIOCOUTQ == 0); a heartbeat (ESC[?25l) counts as emitted after an injection when its offset in the output stream exceeds /proc/<pid>/io:wchar read after the injection; consumed feed lines are bounded by one per such heartbeat",
    'an event counts as handled and drawn after 2 heartbeats emitted after the subject read it (one draw may be in progress)',
    'batched = adjacent key/mouse letters in ONE write(); resize/traffic letters are always followed by a heartbeat sync',
    'mouse coordinates are fixed cells of the 80x24 layout (tab titles, touchscreen buttons), also used at other sizes',
    'expiry uses --filter-time=1 with keep-alive frames in the pacing stream and a 1.6 s wait (0.6 s guard band)',
    'a violation is reported only if two further replays of the same script give the same observation',
    'outside the bound: longer sequences, key auto-repeat, fragmented escape sequences, gpsd, --airports',
]


def selfcheck_letters(feed):
    """the traffic letters must do what the scripts rely on (checked through the real tracker library): Pos2 pairs with Pos
    and moves the fix, Far clears the record, a following Pos fixes again - otherwise the position histories are vacuous"""
    L = feed.l
    pos, pos2, far = ['a1_pos0', 'a1_pos1'], ['a1_pos2_0', 'a1_pos2_1'], ['a1_far_1']

    def lat_of(names):
        t = e4lib.feed2table(b''.join(L[n] for n in names), e4lib.RX_LAT, e4lib.RX_LON)
        return [r['lat'] for r in t['rows']]
    want = [(pos, ['35.200']), (pos + pos2, ['35.210']), (pos + pos2 + far, ['']), (pos + pos2 + far + pos, ['35.200'])]
    for names, w in want:
        got = lat_of(names)
        if got != w:
            raise e4lib.Machinery('traffic letters do not behave as the scripts assume: %s -> %s, want %s' % (names, got, w))


def run(tier):
    feed = Feed()
    selfcheck_letters(feed)
    scripts, bound = enumerate_scripts(tier, feed)
    ex = e4lib.Explorer('C17', tier)
    try:
        ex.run(scripts)
        bound['exhaustive_within_bound'] = True
        cov = {'exhaustive': not ex.machinery, 'bound': bound,
               'rule': 'every sequence of the stated depth over the stated alphabet in every stated context, each compiled to '
                       'one script and executed on the real binary; distinct = distinct script key; non-trivial = ran to its '
                       'oracle (quit delivered or process death observed)',
               'caps_hit': []}
        return ex.report('model_checking', cov, ASSUMPTIONS)
    finally:
        ex.close()
