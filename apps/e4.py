#!/usr/bin/env python3
"""E4 - black-box explorer for the `radar` and `1090` binaries (properties C16, C17, C18).

    python3 /verif/apps/e4.py C16|C17|C18 --tier quick|thorough
    python3 /verif/apps/e4.py replay /verif/replays/<id>/<file>.json

exit 0 held (KNOWN-FINDING lines allowed) / 1 violation / 2 machinery failure.
env: VERIF_BLESS=1 (print BLESS lines, exit 0), VERIF_KF_FILE (known findings file), VERIF_SEED, E4_JOBS (32).
"""

import json
import os
import sys

sys.path.insert(0, os.path.dirname(os.path.abspath(__file__)))

import e4lib  # noqa: E402


def usage():
    print('usage: e4.py C16|C17|C18 --tier quick|thorough | replay <file>')
    sys.exit(2)


def load_modules():
    import e4c16  # noqa: F401
    import e4c17  # noqa: F401
    import e4c18  # noqa: F401
    return {'C16': e4c16, 'C17': e4c17, 'C18': e4c18}


def replay(path):
    import e4drv
    try:
        with open(path) as f:
            doc = json.load(f)
        script = doc['script']
    except Exception as e:
        print('MACHINERY: cannot read replay file %s: %s' % (path, e))
        return 2
    e4lib.build()
    load_modules()
    import tempfile
    import shutil
    scratch = tempfile.mkdtemp(prefix='e4_replay_')
    e4drv.SCRATCH = scratch
    try:
        res = e4lib.run_and_judge(script)
    finally:
        shutil.rmtree(scratch, ignore_errors=True)
    print('replay   : %s' % path)
    print('property : %s   class: %s' % (doc.get('property'), doc.get('class')))
    print('script   : %s' % script.get('key'))
    print('binary   : %s %s   pty %s' % (script.get('binary'), ' '.join(script.get('argv', [])), script.get('size')))
    for i, st in enumerate(script.get('steps', [])):
        print('   step %2d: %s' % (i, json.dumps(st)[:160]))
    print('expected : %s' % json.dumps(doc.get('expected')))
    print('recorded : %s' % doc.get('observed'))
    if res['status'] != 'ok':
        print('MACHINERY: %s' % res.get('msg'))
        return 2
    v = res['verdict']
    if v is None:
        print('observed : property holds on this script now (%s)' % (res.get('summary') or {}).get('outcome'))
        return 0
    print('observed : %s' % v['observed'])
    if v.get('detail') is not None:
        print('detail   : %s' % json.dumps(v['detail'])[:1500])
    print('VIOLATION property=%s replay=%s' % (doc.get('property'), path))
    return 1


def main(argv):
    if len(argv) < 2:
        usage()
    cmd = argv[1]
    if cmd == 'replay':
        if len(argv) < 3:
            usage()
        return replay(argv[2])
    tier = os.environ.get('VERIF_TIER', 'quick')
    i = 2
    while i < len(argv):
        if argv[i] == '--tier' and i + 1 < len(argv):
            tier = argv[i + 1]
            i += 2
        else:
            usage()
    if cmd not in ('C16', 'C17', 'C18') or tier not in ('quick', 'thorough'):
        usage()
    try:
        os.remove(os.path.join(e4lib.OUT, 'evidence', '%s.json' % cmd))
    except OSError:
        pass
    e4lib.build()
    try:
        mods = load_modules()
        return mods[cmd].run(tier)
    except e4lib.Machinery as e:
        print('MACHINERY: %s' % e)
        return 2
    except KeyboardInterrupt:
        print('MACHINERY: interrupted')
        return 2
    except Exception:
        import traceback
        print('MACHINERY: explorer crashed: %s' % traceback.format_exc()[-2000:])
        return 2


if __name__ == '__main__':
    sys.exit(main(sys.argv))
