"""C18 - what radar shows is the tracker's data, placed truthfully on the map.

Bounded model checking on the real binary through the VT screen model: feeds with aircraft (and --locations
markers) at receiver +-d / +-2d in all four quadrants, every view-control sequence up to the stated depth."""

import itertools
import json

import e4lib
import e4screen
from e4lib import hexs
from e4c17 import KEYS, sgr

D = 0.2
LAT0, LON0 = e4lib.RX_LAT, e4lib.RX_LON

# name -> (dlat, dlon) in units of d
GEOM = {
    'N1': (1, 0), 'N2': (2, 0), 'S1': (-1, 0), 'S2': (-2, 0),
    'E1': (0, 1), 'E2': (0, 2), 'W1': (0, -1), 'W2': (0, -2),
    'NE': (1, 1), 'NW': (1, -1), 'SE': (-1, 1), 'SW': (-1, -1),
}
ORDER = list(GEOM)

DRAG = sgr(32, 40, 12) + sgr(32, 50, 15) + sgr(0, 50, 15, press=False)
VIEW = {
    '-': KEYS['-'], '+': KEYS['+'], 'Up': KEYS['Up'], 'Down': KEYS['Down'], 'Left': KEYS['Left'], 'Right': KEYS['Right'],
    'Enter': KEYS['Enter'], 'Scroll': sgr(64, 40, 12), 'Drag': DRAG,
}
VIEW_TS = {'TsOut': sgr(0, 5, 6), 'TsIn': sgr(0, 5, 12), 'TsReset': sgr(0, 5, 18), 'Left': KEYS['Left']}

CONFIGS_QUICK = [(120, 40, 0.5), (80, 24, 0.4)]
CONFIGS_THOROUGH = [(120, 40, 0.5), (80, 24, 0.4), (200, 60, 0.5)]


class Feed:
    def __init__(self, lat0=None, lon0=None, f32_probe=True):
        LAT0 = e4lib.RX_LAT if lat0 is None else lat0
        LON0 = e4lib.RX_LON if lon0 is None else lon0
        self.lat0, self.lon0 = LAT0, LON0
        self.rx_tag = '' if lat0 is None else '|rx=%s,%s' % (LAT0, LON0)
        specs = []
        self.icao = {}
        for i, name in enumerate(ORDER):
            dl, dn = GEOM[name]
            icao = 'c%05x' % (0x100 + i)
            self.icao[name] = icao
            lat, lon = LAT0 + dl * D, LON0 + dn * D
            alt = 10000 + 1000 * i
            specs.append({'kind': 'ident', 'icao': icao, 'callsign': name})
            specs.append({'kind': 'pos', 'icao': icao, 'lat': lat, 'lon': lon, 'alt': alt, 'odd': 0})
            specs.append({'kind': 'pos', 'icao': icao, 'lat': lat, 'lon': lon, 'alt': alt, 'odd': 1})
        specs.append({'kind': 'vel', 'icao': self.icao['N1'], 'east': 100, 'north': -200, 'vrate': -640})
        specs.append({'kind': 'vel', 'icao': self.icao['SW'], 'east': -300, 'north': 50, 'vrate': 1280})
        specs.append({'kind': 'ident', 'icao': 'c00001', 'callsign': 'NOPOS'})           # never positioned
        specs.append({'kind': 'pos', 'icao': 'c00002', 'lat': LAT0 + 0.1, 'lon': LON0 + 0.3, 'alt': 38000, 'odd': 0})
        specs.append({'kind': 'pos', 'icao': 'c00002', 'lat': LAT0 + 0.1, 'lon': LON0 + 0.3, 'alt': 38000, 'odd': 1})  # no callsign
        specs.append({'kind': 'ident', 'icao': self.icao['E2'], 'callsign': 'E2'})      # repeats: counts differ per row
        specs.append({'kind': 'ident', 'icao': self.icao['E2'], 'callsign': 'E2'})
        specs.append({'kind': 'df11', 'icao': self.icao['W1']})                           # non-ES: must not count
        # never positioned, sorting AFTER positioned aircraft (a stale-cell bug needs a positioned row before it)
        specs.append({'kind': 'ident', 'icao': 'c00150', 'callsign': 'NOPOS2'})
        specs.append({'kind': 'ident', 'icao': 'cffff0', 'callsign': 'NOPOS3'})
        specs.append({'kind': 'vel', 'icao': 'cffff0', 'east': 10, 'north': 10, 'vrate': 64})
        # aircraft first (and only) heard through DF18 (TIS-B / ADS-R): they count like any other
        specs.append({'kind': 'df18ident', 'icao': 'c00300', 'callsign': 'TISB', 'cf': 2})
        specs.append({'kind': 'df18ident', 'icao': 'c00301', 'callsign': 'ADSR', 'cf': 6})
        # an aircraft at exactly 0 ft (Gillham code 0x20a: "0", not blank) and one whose reports carry no altitude
        for odd in (0, 1):
            specs.append({'kind': 'pos', 'icao': 'c00310', 'lat': LAT0 - 0.15, 'lon': LON0 + 0.5, 'ac12': 0x20a, 'odd': odd})
            specs.append({'kind': 'pos', 'icao': 'c00311', 'lat': LAT0 - 0.25, 'lon': LON0 + 0.5, 'ac12': 0, 'odd': odd})
        # aircraft whose distance rounds differently at the third decimal when narrowed to f32 first (found by a
        # deterministic search through the real tracker library): the Distance cell must show the f64 value
        self.f32_sensitive = []
        if f32_probe:
            import struct
            cand = []
            for i in range(400):
                cand.append({'kind': 'pos', 'icao': 'd%05x' % i, 'lat': LAT0 + 0.9 + 0.0037 * i, 'lon': LON0 + 0.4 + 0.0051 * i, 'alt': 30000, 'odd': 0})
                cand.append({'kind': 'pos', 'icao': 'd%05x' % i, 'lat': LAT0 + 0.9 + 0.0037 * i, 'lon': LON0 + 0.4 + 0.0051 * i, 'alt': 30000, 'odd': 1})
            cl = e4lib.mkfeed(cand)
            ct = e4lib.feed2table(''.join(x + '\n' for x in cl).encode(), LAT0, LON0)
            for r in ct['rows']:
                d = r['raw']['dist']
                if d is None or d > 400:
                    continue
                d32 = struct.unpack('f', struct.pack('f', d))[0]
                if ('%.3f' % d32) != ('%.3f' % d) and len(self.f32_sensitive) < 3:
                    i = int(r['icao'][1:], 16)
                    self.f32_sensitive.append(r['icao'])
                    specs.append(cand[2 * i])
                    specs.append(cand[2 * i + 1])
        ls = e4lib.mkfeed(specs)
        self.lines = [(x + '\n').encode() for x in ls]
        self.bytes = b''.join(self.lines)
        self.table = e4lib.feed2table(self.bytes, LAT0, LON0)
        # two-phase feed for the expiry variant
        self.part1 = b''.join(self.lines[0:6])       # N1, N2
        self.part2 = b''.join(self.lines[6:15] + self.lines[0:3])      # S1, S2, E1 - and N1 again (added a second time)
        self.t1 = e4lib.feed2table(self.part1, LAT0, LON0)
        self.t2 = e4lib.feed2table(self.part2, LAT0, LON0)
        # traffic that arrives AFTER the view controls were used: its data must not depend on the view
        late = [{'kind': 'ident', 'icao': 'c00200', 'callsign': 'LATE'},
                {'kind': 'pos', 'icao': 'c00200', 'lat': LAT0 + 1.5 * D, 'lon': LON0 - 1.5 * D, 'alt': 21000, 'odd': 0},
                {'kind': 'pos', 'icao': 'c00200', 'lat': LAT0 + 1.5 * D, 'lon': LON0 - 1.5 * D, 'alt': 21000, 'odd': 1},
                {'kind': 'pos', 'icao': self.icao['S1'], 'lat': LAT0 + GEOM['S1'][0] * D - 0.01, 'lon': LON0 + GEOM['S1'][1] * D, 'alt': 11000, 'odd': 0},
                {'kind': 'pos', 'icao': self.icao['S1'], 'lat': LAT0 + GEOM['S1'][0] * D - 0.01, 'lon': LON0 + GEOM['S1'][1] * D, 'alt': 11000, 'odd': 1}]
        # MOVER flies east in four 4.5 km steps (consecutive reports stay pairable) and ends at the mirror image of STILL
        # about the north-south axis: its label must be where it is NOW, not where it was one report ago
        late.append({'kind': 'ident', 'icao': 'c00210', 'callsign': 'STILL'})
        for odd in (0, 1):
            late.append({'kind': 'pos', 'icao': 'c00210', 'lat': LAT0 + 1.5 * D, 'lon': LON0 + 0.5 * D, 'alt': 22000, 'odd': odd})
        late.append({'kind': 'ident', 'icao': 'c00211', 'callsign': 'MOVER'})
        for k in (3, 2, 1, 0):
            for odd in (0, 1):
                late.append({'kind': 'pos', 'icao': 'c00211', 'lat': LAT0 + 1.5 * D, 'lon': LON0 - 0.5 * D - 0.05 * k, 'alt': 23000, 'odd': odd})
        self.geom_late = dict(GEOM)
        self.geom_late['LATE'] = (1.5, -1.5)
        self.geom_late['STILL'] = (1.5, 0.5)
        self.geom_late['MOVER'] = (1.5, -0.5)
        self.late_lines = [(x + '\n').encode() for x in e4lib.mkfeed(late)]
        self.late_bytes = b''.join(self.late_lines)
        self.table_late = e4lib.feed2table(self.bytes + self.late_bytes, LAT0, LON0)
        # very small feeds: the counters must be right from the first aircraft on (Most = 1 with a single aircraft)
        self.small = {}
        for nsm in (1, 2, 3):
            sp = []
            for i in range(nsm):
                ic = 'c%05x' % (0x400 + i)
                sp.append({'kind': 'ident', 'icao': ic, 'callsign': 'SM%d' % i})
                sp.append({'kind': 'pos', 'icao': ic, 'lat': LAT0 + 0.6 * D * (i + 1), 'lon': LON0 + D, 'alt': 9000 + 100 * i, 'odd': 0})
                sp.append({'kind': 'pos', 'icao': ic, 'lat': LAT0 + 0.6 * D * (i + 1), 'lon': LON0 + D, 'alt': 9000 + 100 * i, 'odd': 1})
            sl = [(x + '\n').encode() for x in e4lib.mkfeed(sp)]
            self.small[nsm] = (sl, e4lib.feed2table(b''.join(sl), LAT0, LON0))
        self.locations = ['(%s,%s,%s)' % (n.lower(), round(LAT0 + GEOM[n][0] * D, 4), round(LON0 + GEOM[n][1] * D, 4))
                          for n in ORDER] + ['(rx,%s,%s)' % (LAT0, LON0)]


def expect_of(table):
    return {'rows': [{k: r[k] for k in ('icao', 'callsign', 'lat', 'lon', 'heading', 'alt', 'fpm', 'speed', 'dist')}
                     | {'msgs': str(r['msgs']), 'raw': r.get('raw')} for r in table['rows']],
            'n': table['len'], 'added': table['added_events'], 'most': table['max_simultaneous']}


def key_step(data, letters):
    return {'op': 'keys', 'hex': hexs(data), 'letters': letters}


def compile_script(fd, kind, cfg, seq, delivery, alphabet, filler=True, touchscreen=False):
    cols, rows, scale = cfg
    argv = ['--lat=%s' % fd.lat0, '--long=%s' % fd.lon0, '--scale=%s' % scale, '--disable-lat-long']
    if touchscreen:
        argv.append('--touchscreen')
    steps = []
    expect = None
    expect_after = None
    if kind in ('aircraft', 'aircraft-late'):
        steps.append({'op': 'lines', 'hex': hexs(fd.bytes), 'n': len(fd.lines)})
        expect = expect_of(fd.table)
        labels = ORDER
        if kind == 'aircraft-late':
            expect_after = expect_of(fd.table_late)
    elif kind.startswith('small'):
        sl, st = fd.small[int(kind[5:])]
        steps.append({'op': 'lines', 'hex': hexs(b''.join(sl)), 'n': len(sl)})
        expect = expect_of(st)
        labels = ['SM%d' % i for i in range(int(kind[5:]))]
    elif kind == 'mixed':
        # aircraft and location markers at the same coordinates: in every view a marker and the aircraft over it coincide
        argv += ['--locations'] + fd.locations
        steps.append({'op': 'lines', 'hex': hexs(fd.bytes), 'n': len(fd.lines)})
        expect = expect_of(fd.table)
        labels = ORDER + [n.lower() for n in ORDER] + ['rx']
    elif kind == 'locations':
        argv += ['--locations'] + fd.locations
        steps.append({'op': 'sync', 'n': 2})
        expect = {'rows': [], 'n': 0, 'added': 0, 'most': 0}
        labels = [n.lower() for n in ORDER] + ['rx']
    elif kind == 'expiry':
        argv.append('--filter-time=1')
        steps.append({'op': 'lines', 'hex': hexs(fd.part1), 'n': 6})
        steps.append({'op': 'age', 'ms': 1600})
        steps.append({'op': 'lines', 'hex': hexs(fd.part2), 'n': 12})
        # keep the second-phase aircraft alive while the screens are read (message counts are not compared here)
        steps.append({'op': 'filler', 'on': True,
                      'cycle': [hexs(b'*5dab3d17d4ba29;\n')] + [hexs(fd.lines[i]) for i in (6, 9, 12, 0)]})
        e2 = expect_of(fd.t2)
        expect = {'rows': None, 'n': e2['n'], 'icaos': [r['icao'] for r in e2['rows']],
                  'added': fd.t1['added_events'] + fd.t2['added_events'],
                  'most': max(fd.t1['max_simultaneous'], fd.t2['max_simultaneous'])}
        labels = ['S1', 'S2', 'E1', 'N1']
    elif kind == 'expiry-silent':
        # aircraft expire while the feed is connected but silent and the operator does nothing: the Airplanes tab,
        # already showing, must lose them without any further input
        argv.append('--filter-time=1')
        steps.append({'op': 'lines', 'hex': hexs(fd.part1), 'n': 6})
        steps += [key_step(KEYS['F3'], ['F3']), {'op': 'sync', 'n': 2}, {'op': 'snap', 'name': 'air_before'},
                  {'op': 'filler', 'on': False}, {'op': 'age', 'ms': 1600}, {'op': 'sync', 'n': 2}, {'op': 'snap', 'name': 'air0'},
                  key_step(KEYS['F4'], ['F4']), {'op': 'sync', 'n': 2}, {'op': 'snap', 'name': 'stats0'},
                  key_step(KEYS['F1'], ['F1']), {'op': 'sync', 'n': 2}, {'op': 'snap', 'name': 'map0'},
                  {'op': 'quit', 'hex': '71', 'letters': ['q']}]
        expect = {'rows': [], 'n': 0, 'added': fd.t1['added_events'], 'most': fd.t1['max_simultaneous']}
        key = 'radar|%dx%d|scale=%s|feed=expiry-silent|nofiller|separated|view=none%s' % (cols, rows, scale, fd.rx_tag)
        return {'binary': 'radar', 'oracle': 'c18', 'key': key, 'argv': argv, 'size': [cols, rows], 'filler': True,
                'steps': steps, 'kind': 'expiry', 'labels': [], 'expect': expect, 'expect_after': None, 'geom_late': None,
                'events': [], 'touchscreen': False, 'geom': {},
                'expected': 'after 1.6 s of silence (filter time 1 s) the Airplanes tab shows Airplanes(0) and no rows although nothing was sent or pressed'}
    else:
        raise ValueError(kind)
    s3 = {'op': 'sync', 'n': 2}
    steps += [key_step(KEYS['F3'], ['F3']), s3, {'op': 'snap', 'name': 'air0'},
              key_step(KEYS['F4'], ['F4']), s3, {'op': 'snap', 'name': 'stats0'},
              key_step(KEYS['F1'], ['F1']), s3, {'op': 'snap', 'name': 'map0'}]
    if kind != 'expiry':
        if delivery == 'batched':
            if seq:
                steps += [key_step(b''.join(alphabet[a] for a in seq), list(seq)), s3]
        else:
            for a in seq:
                steps += [key_step(alphabet[a], [a]), s3]
        steps += [{'op': 'snap', 'name': 'map1'}]
        if kind == 'aircraft-late':
            steps += [{'op': 'lines', 'hex': hexs(fd.late_bytes), 'n': len(fd.late_lines)}]
        steps += [key_step(KEYS['F3'], ['F3']), s3, {'op': 'snap', 'name': 'air1'},
                  key_step(KEYS['F1'], ['F1']), s3,
                  key_step(KEYS['Enter'], ['Enter']), s3, {'op': 'snap', 'name': 'map2'}]
    steps.append({'op': 'quit', 'hex': '71', 'letters': ['q']})
    key = 'radar|%dx%d|scale=%s|feed=%s%s|%s|%s|view=%s%s' % (cols, rows, scale, kind, '+ts' if touchscreen else '',
                                                              'filler' if filler else 'nofiller', delivery,
                                                              ','.join(seq) or 'none', fd.rx_tag)
    return {'binary': 'radar', 'oracle': 'c18', 'key': key, 'argv': argv, 'size': [cols, rows], 'filler': filler,
            'steps': steps, 'kind': kind, 'labels': labels, 'expect': expect, 'expect_after': expect_after,
            'geom_late': ({k: list(v) for k, v in fd.geom_late.items()} if kind == 'aircraft-late' else None), 'events': list(seq), 'touchscreen': touchscreen,
            'geom': {n: list(GEOM[n]) for n in ORDER},
            'expected': 'Airplanes tab == vh feed2table cells; Stats totals == added/max; map: north above, east right, 2d twice '
                        'as far as d; view controls leave the Airplanes tab unchanged; Enter restores the initial map'}


# ---------------------------------------------------------------------------------------------
def table_region(lines):
    for i, ln in enumerate(lines):
        if '┌Airplanes(' in ln:
            return lines[i:]
    return None


def geom_of(label, geom=None):
    g = geom or GEOM
    return tuple(g[label.upper()]) if label.upper() in g else None


def check_order(labels_pos, strict_gap, probs, tag, geom=None):
    """pairwise: north-of => smaller row, east-of => larger column (strict when |delta| >= 1 d), equal => within 1"""
    names = [n for n in labels_pos if geom_of(n, geom) is not None and not isinstance(labels_pos[n][0], str)]
    for a, b in itertools.combinations(names, 2):
        (la, na), (lb, nb) = geom_of(a, geom), geom_of(b, geom)
        (ca, ra), (cb, rb) = labels_pos[a], labels_pos[b]
        if la != lb:
            north, south = (ra, rb) if la > lb else (rb, ra)
            if not (north < south if strict_gap else north <= south):
                probs.append('%s:north-not-above(%s,%s)' % (tag, a, b))
        elif abs(ra - rb) > 1:
            probs.append('%s:same-lat-rows-differ(%s,%s)' % (tag, a, b))
        if na != nb:
            east, west = (ca, cb) if na > nb else (cb, ca)
            if not (east > west if strict_gap else east >= west):
                probs.append('%s:east-not-right(%s,%s)' % (tag, a, b))
        elif abs(ca - cb) > 1:
            probs.append('%s:same-lon-cols-differ(%s,%s)' % (tag, a, b))


def compare_table(tag, snap, exp, probs, facts):
    t = e4screen.parse_airplanes(snap['lines'])
    tab_n = e4screen.tab_title_count(snap['lines'])
    if t is None:
        probs.append('%s:no-table' % tag)
        return
    facts['rows_' + tag] = len(t['rows'])
    if t.get('missing_cols'):
        probs.append('%s:columns-not-shown=%s' % (tag, ','.join(t['missing_cols'])))
        return
    if tab_n != exp['n'] or t['title_n'] != exp['n']:
        probs.append('%s:title=%s/%s want %s' % (tag, tab_n, t['title_n'], exp['n']))
    # the table shows as many rows as fit between the header margin and the bottom border (read off the screen)
    capacity = t['capacity']
    if len(exp['rows']) > 0 and capacity < 3:
        probs.append('%s:vacuous-table-capacity=%d' % (tag, capacity))
    want_rows = min(len(exp['rows']), capacity)
    if len(t['rows']) != want_rows:
        probs.append('%s:rows=%d want %d' % (tag, len(t['rows']), want_rows))
    for got, want in zip(t['rows'], exp['rows']):
        for f in e4screen.FIELDS:
            w = t['col'][f][1]
            cands = [want[f]]
            raw = (want.get('raw') or {}).get(f)
            if raw is not None:
                # a coordinate / distance may be shown with any number of decimals: it has to be the tracker's value
                # rounded to the decimals shown
                cands += ['%.*f' % (k, raw) for k in range(0, 7)]
            cands = [(c[:w].strip() if len(c) > w else c) for c in cands]   # wider than the column: its prefix
            if got[f] not in cands:
                probs.append('%s:cell %s.%s=%r want %r' % (tag, want['icao'], f, got[f], cands[0]))


def judge(script, obs):
    probs = []
    snaps = obs.get('snaps', {})
    kind = script['kind']
    exp = script['expect']
    facts = {}
    # 0. the run itself
    if obs.get('panic'):
        p = obs['panic']
        probs.append('panic=%s:%s' % (p['file'].split('/')[-1], p['msg']))
    if obs.get('died_at') is not None and not obs.get('quit_sent'):
        probs.append('exit-early=%s' % obs.get('exit_code'))
    elif obs.get('frozen_at') is not None:
        probs.append('no-heartbeat')
    elif obs.get('exit_code') != 0:
        probs.append('exit=%s' % obs.get('exit_code'))
    # 1. Airplanes tab == library
    air0 = snaps.get('air0')
    if air0:
        if exp.get('rows') is not None:
            compare_table('air0', air0, exp, probs, facts)
            facts['rows'] = facts.get('rows_air0')
        else:
            t = e4screen.parse_airplanes(air0['lines'])
            tab_n = e4screen.tab_title_count(air0['lines'])
            if t is None:
                probs.append('air0:no-table')
            else:
                facts['rows'] = len(t['rows'])
                if tab_n != exp['n'] or t['title_n'] != exp['n']:
                    probs.append('air0:title=%s/%s want %s' % (tab_n, t['title_n'], exp['n']))
                if exp.get('icaos') is not None and [r['icao'] for r in t['rows']] != exp['icaos']:
                    probs.append('air0:icaos=%s want %s' % ([r['icao'] for r in t['rows']], exp['icaos']))
    # 2. Stats
    st0 = snaps.get('stats0')
    if st0:
        s = e4screen.parse_stats(st0['lines'])
        if not s or 'total' not in s:
            probs.append('stats0:unreadable')
        else:
            facts['stats'] = (s.get('total'), s.get('most'))
            if s['total'] != str(exp['added']):
                probs.append('stats0:total=%s want %s' % (s['total'], exp['added']))
            want_most = str(exp['most']) if exp['most'] else ''
            got_most = s.get('most', '') if exp['most'] else ('' if s.get('most_raw', '').strip() in ('None', '') else s.get('most'))
            if got_most != want_most:
                probs.append('stats0:most=%s want %s' % (got_most, want_most))
    # 3. Map geometry
    m0 = snaps.get('map0')
    if m0:
        mp = e4screen.parse_map(m0['lines'], script['labels'])
        if mp is None:
            probs.append('map0:no-map')
        else:
            box = mp['box']
            cx = (box[0] + box[2]) / 2.0
            cy = (box[1] + box[3]) / 2.0
            if abs(mp['axis_col'] - cx) > 1 or abs(mp['axis_row'] - cy) > 1:
                probs.append('map0:axes-not-centred(%s,%s vs %.1f,%.1f)' % (mp['axis_col'], mp['axis_row'], cx, cy))
            lp = mp['labels']
            missing = [n for n in script['labels'] if n not in lp]
            amb = [n for n in lp if isinstance(lp[n][0], str)]
            if missing:
                probs.append('map0:labels-missing=%s' % ','.join(missing))
            if amb:
                probs.append('map0:labels-ambiguous=%s' % ','.join(amb))
            pos = {n: p for n, p in lp.items() if not isinstance(p[0], str)}
            facts['labels'] = len(pos)
            check_order(pos, True, probs, 'map0')
            ac, ar = mp['axis_col'], mp['axis_row']
            if 'rx' in pos:
                if abs(pos['rx'][0] - ac) > 1 or abs(pos['rx'][1] - ar) > 1:
                    probs.append('map0:receiver-not-at-centre%s' % (pos['rx'],))

            def P(n):
                return pos.get(n if kind != 'locations' else n.lower())
            # columns: label column is the projected x itself (both kinds)
            for one, two in (('E1', 'E2'), ('W1', 'W2')):
                if P(one) and P(two):
                    d1, d2 = abs(P(one)[0] - ac), abs(P(two)[0] - ac)
                    facts.setdefault('d1_cols', d1)
                    if d1 < 3:
                        probs.append('map0:vacuous-col-distance(%s=%d)' % (one, d1))
                    if abs(d2 - 2 * d1) > 2:
                        probs.append('map0:col-ratio(%s=%d,%s=%d)' % (one, d1, two, d2))
            if P('E1') and P('W1') and abs(abs(P('E1')[0] - ac) - abs(P('W1')[0] - ac)) > 2:
                probs.append('map0:east-west-asymmetric')
            # rows: locations are printed at their position; aircraft labels 20 plot units above theirs -> differences
            if kind == 'locations':
                for one, two in (('N1', 'N2'), ('S1', 'S2')):
                    if P(one) and P(two):
                        d1, d2 = abs(P(one)[1] - ar), abs(P(two)[1] - ar)
                        facts.setdefault('d1_rows', d1)
                        if d1 < 2:
                            probs.append('map0:vacuous-row-distance(%s=%d)' % (one, d1))
                        if abs(d2 - 2 * d1) > 2:
                            probs.append('map0:row-ratio(%s=%d,%s=%d)' % (one, d1, two, d2))
            elif all(P(n) for n in ('N1', 'N2', 'S1', 'S2')):
                inner = P('S1')[1] - P('N1')[1]
                outer = P('S2')[1] - P('N2')[1]
                facts['d1_rows'] = inner / 2.0
                if inner < 4:
                    probs.append('map0:vacuous-row-distance(S1-N1=%d)' % inner)
                if abs(outer - 2 * inner) > 3:
                    probs.append('map0:row-ratio(S1-N1=%d,S2-N2=%d)' % (inner, outer))
    # 3b. mixed feeds: marker and aircraft at the same place are drawn at the same place, in the initial and in the moved view
    if kind == 'mixed':
        for tag in ('map0', 'map1'):
            sn = snaps.get(tag)
            if not sn:
                continue
            mpx = e4screen.parse_map(sn['lines'], script['labels'])
            if mpx is None:
                continue
            posx = {n: p for n, p in mpx['labels'].items() if not isinstance(p[0], str)}
            both = [n for n in ORDER if n in posx and n.lower() in posx]
            facts['coincident_' + tag] = len(both)
            for n in both:
                (ca, ra), (cl, rl) = posx[n], posx[n.lower()]
                # the aircraft label is printed 20 plot units above the aircraft: same column, 0-3 rows higher
                if abs(ca - cl) > 1 or not (-1 <= rl - ra <= 3):
                    probs.append('%s:marker-and-aircraft-apart(%s:%s vs %s:%s)' % (tag, n, (ca, ra), n.lower(), (cl, rl)))
            if tag == 'map0' and len(both) < 6:
                probs.append('map0:vacuous-coincidence(%d pairs visible)' % len(both))
    # 4. view controls change only the view
    if kind != 'expiry':
        m1 = snaps.get('map1')
        if m1:
            mp1 = e4screen.parse_map(m1['lines'], script['labels'])
            if mp1 is None:
                probs.append('map1:no-map')
            else:
                pos1 = {n: p for n, p in mp1['labels'].items() if not isinstance(p[0], str)}
                facts['labels_after_view'] = len(pos1)
                check_order(pos1, False, probs, 'map1')
        air1 = snaps.get('air1')
        if script.get('expect_after') is not None:
            # traffic arrived after the view controls: the table must equal the library fed with everything
            if air1:
                compare_table('air1', air1, script['expect_after'], probs, facts)
        elif air0 and air1:
            r0, r1 = table_region(air0['lines']), table_region(air1['lines'])
            if r0 is None or r1 is None:
                probs.append('air1:no-table')
            elif r0 != r1:
                diff = [i for i, (a, b) in enumerate(zip(r0, r1)) if a != b]
                probs.append('air1:table-changed-after-view(lines %s)' % diff[:4])
            if e4screen.tab_title_count(air1['lines']) != e4screen.tab_title_count(air0['lines']):
                probs.append('air1:title-changed')
        m2 = snaps.get('map2')
        if script.get('geom_late') and m2:
            # after reset the map shows the late traffic too: the moved aircraft and the new one where they are NOW
            gl = {k: tuple(v) for k, v in script['geom_late'].items()}
            mp2 = e4screen.parse_map(m2['lines'], list(script['labels']) + ['LATE', 'STILL', 'MOVER'])
            if mp2 is None:
                probs.append('map2:no-map')
            else:
                pos2 = {n: p for n, p in mp2['labels'].items() if not isinstance(p[0], str)}
                facts['labels_after_late'] = len(pos2)
                for need in ('LATE', 'STILL', 'MOVER'):
                    if need not in pos2:
                        probs.append('map2:label-missing-after-late(%s)' % need)
                check_order(pos2, True, probs, 'map2', gl)
                if 'STILL' in pos2 and 'MOVER' in pos2:
                    ac2 = mp2['axis_col']
                    ds, dm = pos2['STILL'][0] - ac2, ac2 - pos2['MOVER'][0]
                    # labels are printed from their first character: both offsets are measured from the label start
                    if abs(ds - dm) > 1 or abs(pos2['STILL'][1] - pos2['MOVER'][1]) > 1:
                        probs.append('map2:moved-aircraft-not-at-current-position(STILL=%s,MOVER=%s,axis=%s)' % (pos2['STILL'], pos2['MOVER'], ac2))
        if script.get('expect_after') is None and m0 and m2 and m0['lines'] != m2['lines']:
            diff = [i for i, (a, b) in enumerate(zip(m0['lines'], m2['lines'])) if a != b]
            probs.append('map2:reset-differs-from-initial(lines %s)' % diff[:4])
        facts['view_changed_map'] = bool(m0 and m1 and m0['lines'] != m1['lines'])
    need = ['air0', 'stats0', 'map0'] + ([] if kind == 'expiry' else ['map1', 'air1', 'map2'])
    if not probs and any(n not in snaps for n in need):
        probs.append('snapshots-missing')
    screens = [e4lib.digest16(json.dumps(snaps[n]['lines'])) for n in snaps]
    outcome = 'ok rows=%s stats=%s labels=%s moved=%s' % (facts.get('rows'), facts.get('stats'), facts.get('labels'),
                                                          facts.get('view_changed_map'))
    summary = {'events': len([s for s in script['steps'] if s['op'] in ('keys', 'lines', 'quit')]), 'screens': screens,
               'outcome': outcome if not probs else probs[0].split('(')[0]}
    if not probs:
        return None, summary
    first = probs[0]
    cls = first.split('=')[0].split('(')[0].split(' ')[0]
    observed = '|'.join(probs[:4]) + ('|+%d more' % (len(probs) - 4) if len(probs) > 4 else '')
    return {'class': 'C18/' + cls, 'observed': observed, 'expected': script['expected'],
            'detail': {'problems': probs[:20], 'facts': facts,
                       'map0': (m0 or {}).get('lines'), 'air0': (air0 or {}).get('lines')}}, summary


e4lib.register_judge('c18', judge)


def enumerate_scripts(tier, fd, fd_mer=None):
    out = []
    parts = {}
    depth = 2 if tier == 'quick' else 3
    cfgs = CONFIGS_QUICK if tier == 'quick' else CONFIGS_THOROUGH
    names = list(VIEW)
    seqs = [()]
    for k in range(1, depth + 1):
        seqs += list(itertools.product(names, repeat=k))
    n0 = len(out)
    for ci, cfg in enumerate(cfgs):
        for kind in ('aircraft', 'locations'):
            for seq in seqs:
                # full depth on the first configuration, depth<=1 on the others (quick) / depth<=2 (thorough)
                lim = depth if ci == 0 else depth - 1
                if len(seq) > lim:
                    continue
                out.append(compile_script(fd, kind, cfg, seq, 'separated', VIEW))
                if len(seq) >= 2 and (tier != 'quick' or kind == 'aircraft'):
                    out.append(compile_script(fd, kind, cfg, seq, 'batched', VIEW))
    parts['view sequences depth<=%d over %d letters x {aircraft, locations} x configs %s (full depth on the first, depth-1 on the others)'
          % (depth, len(names), ['%dx%d@%s' % c for c in cfgs])] = len(out) - n0
    n0 = len(out)
    ts_names = list(VIEW_TS)
    ts_seqs = [()] + [(a,) for a in ts_names] + list(itertools.product(ts_names, repeat=2))
    if tier != 'quick':
        ts_seqs += list(itertools.product(ts_names, repeat=3))
    for seq in ts_seqs:
        out.append(compile_script(fd, 'aircraft', cfgs[0], seq, 'separated', VIEW_TS, touchscreen=True))
    parts['touchscreen view sequences over %s' % ts_names] = len(out) - n0
    n0 = len(out)
    for cfg in cfgs:
        for kind in ('aircraft', 'locations'):
            for seq in [()] + [(a,) for a in names]:
                out.append(compile_script(fd, kind, cfg, seq, 'separated', VIEW, filler=False))
        out.append(compile_script(fd, 'expiry', cfg, (), 'separated', VIEW))
        out.append(compile_script(fd, 'expiry-silent', cfg, (), 'separated', VIEW))
    parts['controls without pacing filler (depth<=1) + expiry variant (Total != Most)'] = len(out) - n0
    n0 = len(out)
    mixed_seqs = [(), ('Up',), ('Left',), ('Down', 'Right'), ('-',), ('+',), ('Drag',), ('Up', 'Up', 'Left'), ('Scroll',)]
    for seq in mixed_seqs:
        out.append(compile_script(fd, 'mixed', cfgs[0], seq, 'separated', VIEW))
    parts['aircraft and location markers at the same coordinates x %d view sequences' % len(mixed_seqs)] = len(out) - n0
    n0 = len(out)
    for nsm in (1, 2, 3):
        for seq in [(), ('-',), ('Up',)]:
            out.append(compile_script(fd, 'small%d' % nsm, cfgs[0], seq, 'separated', VIEW))
        out.append(compile_script(fd, 'small%d' % nsm, cfgs[-1], (), 'separated', VIEW, filler=False))
    parts['feeds of 1, 2 and 3 aircraft (counters from the first aircraft on)'] = len(out) - n0
    # traffic arriving after the view controls were used (pan / zoom must not leak into the data)
    n0 = len(out)
    late_depth = 1 if tier == 'quick' else 2
    late_seqs = [()]
    for k in range(1, late_depth + 1):
        late_seqs += list(itertools.product(names, repeat=k))
    for seq in late_seqs:
        out.append(compile_script(fd, 'aircraft-late', cfgs[0], seq, 'separated', VIEW))
    # a long pan: ten steps north, five west
    for seq in (('Up',) * 10 + ('Left',) * 5, ('Down',) * 6 + ('Right',) * 6):
        if all(a in VIEW for a in seq):
            out.append(compile_script(fd, 'aircraft-late', cfgs[0], seq, 'batched', VIEW))
    parts['traffic after view sequences (depth<=%d + two long pans)' % late_depth] = len(out) - n0
    # a receiver next to the prime meridian: aircraft and markers on both sides of longitude 0
    if fd_mer is not None:
        n0 = len(out)
        mdepth = 1 if tier == 'quick' else 2
        mseqs = [()]
        for k in range(1, mdepth + 1):
            mseqs += list(itertools.product(names, repeat=k))
        for kind in ('aircraft', 'locations'):
            for seq in mseqs:
                out.append(compile_script(fd_mer, kind, cfgs[0], seq, 'separated', VIEW))
        out.append(compile_script(fd_mer, 'aircraft-late', cfgs[0], (), 'separated', VIEW))
        out.append(compile_script(fd_mer, 'aircraft', cfgs[0], (), 'separated', VIEW_TS, touchscreen=True))
        parts['receiver at %s,%s (traffic straddles longitude 0), view depth<=%d' % (fd_mer.lat0, fd_mer.lon0, mdepth)] = len(out) - n0
    return out, parts


ASSUMPTIONS = [
    'black box: the real radar binary under a pty; the screen is reconstructed by a VT model (CUP/ED/EL/UTF-8 cells, SGR ignored)',
    'expected table cells / counters come from vh feed2table (real decoder + real tracker library) on the same lines and receiver position',
    'expiry variant: expected = feed2table of the second phase, Total = sum of Added events, Most = max of both phases (1.6 s wait against --filter-time=1)',
    'map oracle is geometric only: pairwise order of labels, axes centred, 2d labels twice as far as d labels with a quantisation tolerance of 2 cells (3 for differences of two labels)',
    'aircraft labels are drawn 20 plot units above the aircraft, therefore rows of aircraft are compared as differences, columns against the axis',
    '--disable-lat-long is used so that labels are the bare callsigns (no overlap); a cell wider than its column is compared by its column-width prefix',
    "synchronisation is causal, never a sleep: terminal input counts as delivered when /proc/<pid>/io:rchar of the subject grew by the bytes written; feed bytes when the subject's TCP acknowledged them (TIOCOUTQ == 0); a heartbeat (ESC[?25l) counts as emitted after an injection when its offset in the output stream exceeds /proc/<pid>/io:wchar read after the injection; consumed feed lines are bounded by one per such heartbeat",
    'snapshots are complete frames (taken at a heartbeat), 2 heartbeats emitted after the subject read the last key',
]


def run(tier):
    fd = Feed()
    fd_mer = Feed(e4lib.RX_LAT, -0.1)   # same latitude as the base feed (same Mercator stretch), longitude next to 0
    scripts, parts = enumerate_scripts(tier, fd, fd_mer)
    ex = e4lib.Explorer('C18', tier)
    try:
        ex.run(scripts)
        cov = {'exhaustive': not ex.machinery,
               'bound': {'view_alphabet': list(VIEW), 'touchscreen_alphabet': list(VIEW_TS), 'parts': parts,
                         'aircraft': len(fd.table['rows']), 'feed_lines': len(fd.lines), 'd_deg': D,
                         'f32_sensitive_distance_aircraft': fd.f32_sensitive + fd_mer.f32_sensitive,
                         'expected_table': fd.table['rows'][:3]},
               'rule': 'one script per (feed kind, terminal/scale config, view sequence, delivery); distinct = distinct script key; '
                       'non-trivial = all snapshots taken and judged',
               'caps_hit': []}
        return ex.report('model_checking', cov, ASSUMPTIONS)
    finally:
        ex.close()
