def run(tier):
    raise NotImplementedError
