"""C16 - both clients treat the feed as a byte stream; survive malformed input and disconnects.

Fault enumeration on the real binaries: all cut sets (<=1 quick, <=2 thorough) of a 3-line feed with a read-timeout
gap at every cut, a malformed-line alphabet at every inter-line position in two timings, all disconnect points
(after k lines, mid-line) without and with --retry-tcp."""

import itertools
import json
import re

import e4lib
import e4screen
from e4lib import hexs

F3 = '1b5b31337e'
RADAR_SIZE = [100, 30]
SENT_ICAO = 'c0ffee'


class Feed:
    def __init__(self):
        specs = [
            {'kind': 'ident', 'icao': 'a00001', 'callsign': 'AAA'},
            {'kind': 'ident', 'icao': 'a00002', 'callsign': 'BBB'},
            {'kind': 'pos', 'icao': 'a00001', 'lat': 35.2, 'lon': -80.0, 'alt': 10000, 'odd': 0},
            {'kind': 'ident', 'icao': 'a00003', 'callsign': 'CCC'},     # carrier of the CRLF / missing-* letters
            {'kind': 'df11', 'icao': SENT_ICAO},                           # 1090 sentinel (not tracked by radar)
        ]
        ls = e4lib.mkfeed(specs)
        self.L = [(x + '\n').encode() for x in ls[:3]]
        self.L4 = ls[3]
        self.sent = (ls[4] + '\n').encode()
        self.payload = [x[1:-1].lower() for x in ls[:3]]
        self.sent_payload = ls[4][1:-1].lower()
        self.feed = b''.join(self.L)
        assert len(self.feed) == 93, len(self.feed)
        self.names = {self.payload[0]: 'L1', self.payload[1]: 'L2', self.payload[2]: 'L3', self.sent_payload: 'S'}

    def malformed(self):
        """-> [(name, bytes, ambiguous_valid_line_or_None)]"""
        l4 = self.L4.encode()
        h = l4[1:-1]
        return [
            ('empty', b'\n', None),
            ('star', b'*\n', None),
            ('semi', b';\n', None),
            ('star-semi', b'*;\n', None),
            ('star0semi', b'*0;\n', None),
            ('x', b'x\n', None),
            ('nonhex', b'*zzzzzzzzzzzzzz;\n', None),
            ('oddhex', b'*8d4840d6202cc;\n', None),
            ('8d', b'*8d;\n', None),
            ('utf8@0', 'é'.encode() + h + b';\n', None),
            ('utf8@1', b'*' + 'é'.encode() + h + b';\n', None),
            ('utf8@len-3', b'*' + h + 'é'.encode() + b'\n', None),
            ('badutf8', b'*8d\xff40d6;\n', None),
            ('zero7', b'*' + b'00' * 7 + b';\n', None),
            ('zero14', b'*' + b'00' * 14 + b';\n', None),
            ('df1', b'*08' + b'11' * 6 + b';\n', None),
            ('df22', b'*b0' + b'11' * 13 + b';\n', None),
            ('long300', b'*' + b'ab' * 148 + b';\n', None),
            ('crlf', l4 + b'\r\n', l4 + b'\n'),
            ('nostar', l4[1:] + b'\n', None),
            # five bytes of noise glued in front of a complete frame text: one malformed line, not a frame (the split timing
            # cuts it exactly in front of the '*')
            ('junk5+frame', b'zzzzz' + l4 + b'\n', None),
            ('frame+junk', l4 + b'zz\n', None),
        ]


WELL_FORMED = re.compile(rb'^\*([0-9a-fA-F][0-9a-fA-F])*;$')


def well_formed_lines(feed_bytes):
    """R-line: the complete lines of a feed that are syntactically `*<hex>;` (whether they decode is left to the
    real decoder inside vh feed2table)"""
    return [ln for ln in feed_bytes.split(b'\n')[:-1] if WELL_FORMED.match(ln)]


def table_expect(feed_bytes):
    t = e4lib.feed2table(b''.join(ln + b'\n' for ln in well_formed_lines(feed_bytes)))
    return {'n': t['len'], 'msgs': {r['icao']: r['msgs'] for r in t['rows']}}


# ---------------------------------------------------------------------------------------------
# script builders
def s1090(key, sends, expect_names, fd, close=False, allow_unknown=False, nogap=False, close_gap=False, no_render=False):
    """sends: list of byte segments, a read-timeout gap between consecutive ones (nogap: back-to-back sends)"""
    steps = []
    for i, seg in enumerate(sends):
        if i and not nogap:
            steps.append({'op': 'gap'})
        steps.append({'op': 'send', 'hex': hexs(seg)})
    if close and close_gap:
        steps.append({'op': 'gap'})
    if close:
        steps.append({'op': 'close'})
        steps.append({'op': 'settle', 'ms': 300})
    else:
        steps.append({'op': 'gap'})
        steps.append({'op': 'send', 'hex': hexs(fd.sent)})
        steps.append({'op': 'expect', 'line': fd.sent_payload, 'after': fd.block_len[fd.sent_payload] - 1})
    return {'binary': '1090', 'oracle': 'c16_1090', 'key': key, 'argv': [], 'steps': steps,
            'segments': [hexs(s) for s in sends], 'names': fd.names, 'blocks': fd.blocks,
            'expect_echo': expect_names + ([] if close else ['S']), 'allow_unknown': allow_unknown, 'no_render': no_render,
            'expected': 'echo sequence == %s (each complete line once, in order, followed by its rendering); '
                        'process alive' % ','.join(expect_names + ([] if close else ['S']))}


def sradar(key, sends, n_lines_last, expect_tables, retry=False, disconnect=None, after=None, n_after=0,
           partial=None, partial_gap=False, nogap=False, send_now=False, extra_argv=(), rst=False):
    """sends: segments with a gap between (nogap: back-to-back sends instead); disconnect: None | 'exit' | 'retry';
    partial: bytes of an incomplete line sent right before the close (partial_gap: a read timeout elapses first);
    after: bytes sent after the reconnect"""
    steps = [{'op': 'keys', 'hex': F3}, {'op': 'sync', 'n': 2}]
    for i, seg in enumerate(sends):
        if i and not nogap:
            # one iteration per complete line of the previous segment, one that times out on the partial line, one that
            # may have been in progress when the segment landed
            steps.append({'op': 'gap', 'n': sends[i - 1].count(b'\n') + 2})
        steps.append({'op': 'send', 'hex': hexs(seg)})
    steps.append({'op': 'sync', 'n': n_lines_last + 2})
    steps.append({'op': 'snap', 'name': 'table'})
    argv = list(e4lib.BASE_ARGV) + list(extra_argv)
    if retry:
        argv.append('--retry-tcp')
    if disconnect is None:
        steps.append({'op': 'quit', 'hex': '71'})
    else:
        if partial:
            steps.append({'op': 'send', 'hex': hexs(partial)})
            if partial_gap:
                steps.append({'op': 'gap', 'n': 2})
        steps.append({'op': 'close', 'rst': rst})
        if disconnect == 'exit':
            steps.append({'op': 'wait_exit'})
        else:
            steps.append({'op': 'accept'})
            if not send_now:
                steps.append({'op': 'sync', 'n': 2})
            if after:
                steps.append({'op': 'send', 'hex': hexs(after)})
            steps.append({'op': 'sync', 'n': n_after + 2})
            steps.append({'op': 'snap', 'name': 'table2'})
            steps.append({'op': 'quit', 'hex': '71'})
    return {'binary': 'radar', 'oracle': 'c16_radar', 'key': key, 'argv': argv, 'size': RADAR_SIZE, 'filler': False,
            'steps': steps, 'segments': [hexs(s) for s in sends], 'expect_tables': expect_tables,
            'disconnect': disconnect,
            'expected': 'Airplanes(n) and per-aircraft Msgs == tracker library fed with the complete well-formed lines: %s; '
                        'heartbeats keep coming; %s' % (json.dumps(expect_tables),
                                                        'exit 0 with the terminal restored after the disconnect' if disconnect == 'exit'
                                                        else ('reconnect, keep the aircraft, then exit 0 on quit' if disconnect else
                                                              'exit 0 with the terminal restored on quit'))}


# ---------------------------------------------------------------------------------------------
# judges
def parse_echo(script, stdout):
    names = script['names']
    blocks = script['blocks']
    seq = []
    i = 0
    while i < len(stdout):
        ln = stdout[i]
        if ln in names:
            blk = blocks.get(ln, [])
            ok = stdout[i + 1:i + 1 + len(blk)] == blk
            seq.append(names[ln] if ok else names[ln] + '!render')
            i += 1 + (len(blk) if ok else 0)
        else:
            seq.append('?' + ln[:48])
            i += 1
    return seq


def judge_1090(script, obs):
    seq = parse_echo(script, obs.get('stdout', []))
    named = [s for s in seq if not s.startswith('?')]
    unknown = [s for s in seq if s.startswith('?')]
    probs = []
    cls = None
    if obs.get('panic'):
        p = obs['panic']
        probs.append('panic=%s:%s' % (p['file'].split('/')[-1], p['msg'].split(' but ')[0]))
        cls = 'panic@%s:%d' % (p['file'].split('/')[-1], p['line'])
    if not obs.get('alive_at_end'):
        probs.append('dead exit=%s' % obs.get('exit_code'))
        cls = cls or '1090-dead'
    if obs.get('stalled_at') is not None:
        probs.append('sentinel-not-echoed')
        cls = cls or '1090-stalled'
    want = script['expect_echo']
    if named != want:
        lost = [w for w in want if w not in named]
        dup = sorted(set(n for n in named if named.count(n) > 1))
        kind = 'lost' if lost else ('dup' if dup else 'order')
        if cls is None:
            cls = '1090-line-' + kind
        probs.append('echo=' + ','.join(named))
    elif unknown and not script.get('allow_unknown'):
        probs.append('extra-echo')
        cls = cls or '1090-extra-echo'
    # a skipped (malformed / all-zero / undecodable) line may be echoed, but nothing may be rendered for it:
    # renderings are indented, echoes are not
    if script.get('no_render'):
        rendered = [u[1:] for u in unknown if u[1:].startswith(' ')]
        if rendered:
            probs.append('rendered-skipped-line=%s' % rendered[0].strip()[:40])
            cls = cls or '1090-malformed-line-rendered'
    outcome_sig = 'echo=%s|unk=%d|%s' % (','.join(named), len(unknown), 'alive' if obs.get('alive_at_end') else 'dead')
    summary = {'events': len(script['steps']), 'screens': [], 'outcome': outcome_sig}
    if not probs:
        return None, summary
    if unknown and not script.get('allow_unknown'):
        probs.append('unk=' + ';'.join(u[1:29] for u in unknown[:3]))
    observed = '|'.join(probs)
    return {'class': 'C16/' + cls, 'observed': observed, 'expected': script['expected'],
            'detail': {'echo_sequence': seq[:20], 'stderr': obs.get('stderr_tail', '')[-200:]}}, summary


def _table_sig(t):
    if t is None:
        return 'no-table'
    return 'n=%s/%s msgs=%s' % (t['tab_n'], t['title_n'], ','.join('%s:%s' % kv for kv in sorted(t['msgs'].items())))


def _read_table(snap):
    if not snap:
        return None
    p = e4screen.parse_airplanes(snap['lines'])
    if p is None:
        return None
    return {'tab_n': e4screen.tab_title_count(snap['lines']), 'title_n': p['title_n'],
            'msgs': {r['icao']: r['msgs'] for r in p['rows']}}


def _table_matches(t, alts):
    if t is None:
        return False
    for e in alts:
        if t['tab_n'] == e['n'] and t['title_n'] == e['n'] and t['msgs'] == {k: str(v) for k, v in e['msgs'].items()}:
            return True
    return False


def judge_radar(script, obs):
    probs = []
    cls = None
    if obs.get('panic'):
        p = obs['panic']
        probs.append('panic=%s:%s' % (p['file'].split('/')[-1], p['msg'].split(' but ')[0]))
        cls = 'panic@%s:%d' % (p['file'].split('/')[-1], p['line'])
    disc = script.get('disconnect')
    died_early = obs.get('died_at') is not None and not obs.get('quit_sent')
    if died_early and not (disc == 'exit' and script['steps'][min(obs['died_at'], len(script['steps']) - 1)]['op'] == 'wait_exit'):
        probs.append('exit-early=%s' % obs.get('exit_code'))
        cls = cls or 'radar-exit-early'
    elif obs.get('frozen_at') is not None:
        st = script['steps'][obs['frozen_at']]
        probs.append('no-reconnect' if st['op'] == 'accept' else 'no-heartbeat')
        cls = cls or ('radar-no-reconnect' if st['op'] == 'accept' else 'radar-frozen')
    elif obs.get('killed'):
        probs.append('no-exit')
        cls = cls or 'radar-no-exit'
    elif obs.get('exit_code') != 0:
        probs.append('exit=%s' % obs.get('exit_code'))
        cls = cls or 'radar-exit-status'
    if not obs.get('termios_restored'):
        probs.append('termios=raw')
        cls = cls or 'radar-termios'
    if obs.get('mouse_on'):
        probs.append('mouse-left-on')
    exp = script['expect_tables']
    sigs = []
    for name in ('table', 'table2'):
        if name not in exp:
            continue
        snap = obs.get('snaps', {}).get(name)
        if snap is None:
            continue   # the run ended before the snapshot (already a problem above)
        t = _read_table(snap)
        sigs.append(_table_sig(t))
        if not _table_matches(t, exp[name]):
            probs.append('%s:%s' % (name, _table_sig(t)))
            cls = cls or ('radar-line-lost' if name == 'table' else 'radar-reconnect-line-lost')
    outcome = '|'.join(sigs) + '|exit=%s' % obs.get('exit_code')
    summary = {'events': len(script['steps']), 'screens': [], 'outcome': outcome}
    if not probs:
        return None, summary
    return {'class': 'C16/' + cls, 'observed': '|'.join(probs), 'expected': script['expected'],
            'detail': {'tail': obs.get('tail', '')[-200:], 'notes': obs.get('notes')}}, summary


e4lib.register_judge('c16_1090', judge_1090)
e4lib.register_judge('c16_radar', judge_radar)


# ---------------------------------------------------------------------------------------------
def reference_blocks(fd):
    """what 1090 has to print after the echo of each valid line: the library's own text rendering of that frame
    (`vh render`: real decoder + Display; C11 judges the rendering itself). Taking the blocks from a run of the subject
    instead would turn a 1090 that echoes or renders nothing into a machinery error instead of a violation."""
    import subprocess
    pay = fd.payload + [fd.sent_payload]
    r = subprocess.run([e4lib.VH, 'render'], input=('\n'.join(pay) + '\n').encode(), stdout=subprocess.PIPE, stderr=subprocess.PIPE, timeout=30)
    if r.returncode != 0:
        raise e4lib.Machinery('vh render failed: %s' % r.stderr.decode('utf-8', 'replace')[-300:])
    tbl = json.loads(r.stdout.decode())
    fd.blocks = {}
    fd.block_len = {}
    for p in pay:
        if not tbl.get(p, {}).get('ok') or not tbl[p]['lines']:
            raise e4lib.Machinery('vh render: feed payload %s does not decode / render: %r' % (p, tbl.get(p)))
        fd.blocks[p] = tbl[p]['lines']
        fd.block_len[p] = 1 + len(tbl[p]['lines'])


def split_at(data, cuts):
    segs = []
    prev = 0
    for c in cuts:
        segs.append(data[prev:c])
        prev = c
    segs.append(data[prev:])
    return segs


def enumerate_scripts(tier, fd):
    out = []
    parts = {}
    full_tbl = [table_expect(fd.feed)]
    maxcuts = 1 if tier == 'quick' else 2
    n0 = len(out)
    for k in range(0, maxcuts + 1):
        for cuts in itertools.combinations(range(1, len(fd.feed)), k):
            segs = split_at(fd.feed, cuts)
            ck = 'cuts=%s' % (','.join(map(str, cuts)) or 'none')
            out.append(s1090('1090|%s|gap' % ck, segs, ['L1', 'L2', 'L3'], fd))
            out.append(sradar('radar|%s|gap' % ck, segs, segs[-1].count(b'\n'), {'table': full_tbl}))
    parts['cut sets (<=%d cuts over %d byte positions, timeout gap at every cut) x 2 clients' % (maxcuts, len(fd.feed) - 1)] = len(out) - n0
    # sanity class: segmented but not delayed (two sends back to back, no read timeout in between)
    n0 = len(out)
    stride_pos = list(range(1, len(fd.feed))) if tier != 'quick' else [1, 2, 16, 29, 30, 31, 32, 47, 61, 62, 91, 92]
    for c in stride_pos:
        segs = split_at(fd.feed, (c,))
        out.append(s1090('1090|cuts=%d|nogap' % c, segs, ['L1', 'L2', 'L3'], fd, nogap=True))
        out.append(sradar('radar|cuts=%d|nogap' % c, segs, 3, {'table': full_tbl}, nogap=True))
    parts['single cut without delay (two back-to-back sends) at %d positions x 2 clients' % len(stride_pos)] = len(out) - n0

    n0 = len(out)
    for name, mb, amb in fd.malformed():
        for j in range(4):
            pre = b''.join(fd.L[:j])
            post = b''.join(fd.L[j:])
            alts = [table_expect(pre + mb + post)]
            if amb is not None:
                a2 = table_expect(pre + amb + post)
                if a2 not in alts:
                    alts.append(a2)
                a3 = table_expect(pre + post)
                if a3 not in alts:
                    alts.append(a3)
            # timing A: own segment, gap before and after
            segsA = [s for s in (pre, mb, post) if s]
            nr = name not in ('long300', 'crlf')
            out.append(s1090('1090|mal=%s@%d|own-segment' % (name, j), segsA, ['L1', 'L2', 'L3'], fd, allow_unknown=True, no_render=nr))
            out.append(sradar('radar|mal=%s@%d|own-segment' % (name, j), segsA, segsA[-1].count(b'\n'), {'table': alts}))
            # timing B: one send with everything (busy traffic, no read timeout anywhere)
            one = pre + mb + post
            out.append(s1090('1090|mal=%s@%d|same-send' % (name, j), [one], ['L1', 'L2', 'L3'], fd, allow_unknown=True, no_render=nr))
            # timing C: the malformed line itself is split by a read timeout (its head is valid text), then the rest
            if len(mb) > 6 and j in (0, 2):
                cutp = 5 if name != 'badutf8' else 3
                segsC = [s for s in (pre + mb[:cutp], mb[cutp:] + post) if s]
                out.append(s1090('1090|mal=%s@%d|split' % (name, j), segsC, ['L1', 'L2', 'L3'], fd, allow_unknown=True, no_render=nr))
                out.append(sradar('radar|mal=%s@%d|split' % (name, j), segsC, segsC[-1].count(b'\n'), {'table': alts}))
            out.append(sradar('radar|mal=%s@%d|same-send' % (name, j), [one], one.count(b'\n'), {'table': alts}))
            # the option that looks at the first payload byte before decoding (all feed lines are DF17: same tables)
            if j in (0, 2):
                out.append(sradar('radar|mal=%s@%d|same-send|limit-parsing' % (name, j), [one], one.count(b'\n'), {'table': alts},
                                  extra_argv=['--limit-parsing']))
    parts['malformed alphabet(%d) x 4 positions x 2 timings x 2 clients (+ radar --limit-parsing at 2 positions)' % len(fd.malformed())] = len(out) - n0

    # every capability value of DF17 plus DF18 / DF11 lines, with and without --limit-parsing (which keeps DF17 only)
    n0 = len(out)
    fspecs = [{'kind': 'ident', 'icao': 'b0000%d' % ca, 'callsign': 'CA%d' % ca, 'ca': ca} for ca in range(8)]
    fspecs += [{'kind': 'pos', 'icao': 'b0000%d' % ca, 'lat': 35.1 + 0.01 * ca, 'lon': -80.0, 'alt': 9000, 'odd': 0, 'ca': ca} for ca in range(8)]
    fspecs += [{'kind': 'df18ident', 'icao': 'b00018', 'callsign': 'TISB', 'cf': 2}, {'kind': 'df11', 'icao': 'b00011'}]
    flines = [(x + '\n').encode() for x in e4lib.mkfeed(fspecs)]
    fall = b''.join(flines)
    f17 = b''.join(l for l in flines if (int(l[1:3], 16) >> 3) == 17)
    for name, argv_x, expect_bytes in (('all-formats', [], fall), ('all-formats|limit-parsing', ['--limit-parsing'], f17)):
        out.append(sradar('radar|%s|one-send' % name, [fall], len(flines), {'table': [table_expect(expect_bytes)]}, extra_argv=argv_x))
        half = len(b''.join(flines[:9])) + 7
        out.append(sradar('radar|%s|cut' % name, [fall[:half], fall[half:]], len(flines) - 9, {'table': [table_expect(expect_bytes)]}, extra_argv=argv_x))
    parts['DF17 with every capability value + DF18 + DF11, with / without --limit-parsing'] = len(out) - n0

    n0 = len(out)
    partial_lens = [1, 2, 3, 30]
    points = [(k, 0, False) for k in range(4)] + [(k, pl, g) for k in range(3) for pl in partial_lens for g in (False, True)]
    for k, pl, g in points:
        done = b''.join(fd.L[:k])
        part = fd.L[k][:pl] if pl else b''
        rest = b''.join(fd.L[k:])
        name = 'disc=k%d+%d%s' % (k, pl, ('+gap' if g else '') if pl else '')
        tbl_before = [table_expect(done)]
        out.append(sradar('radar|%s|noretry' % name, [done] if done else [], k, {'table': tbl_before}, disconnect='exit',
                          partial=part, partial_gap=g))
        out.append(sradar('radar|%s|retry' % name, [done] if done else [], k, {'table': tbl_before, 'table2': full_tbl},
                          retry=True, disconnect='retry', after=rest, n_after=3 - k, partial=part, partial_gap=g))
        # the server aborts the connection (RST) instead of closing it (FIN)
        if g or not pl:
            out.append(sradar('radar|%s|retry-rst' % name, [done] if done else [], k, {'table': tbl_before, 'table2': full_tbl},
                              retry=True, disconnect='retry', after=rest, n_after=3 - k, partial=part, partial_gap=g, rst=True))
        if not pl:
            out.append(sradar('radar|%s|noretry-rst' % name, [done] if done else [], k, {'table': tbl_before}, disconnect='exit',
                              partial=part, partial_gap=g, rst=True))
        if pl and not g:
            # the feed continues at once on the new connection (no read timeout between reconnect and the next line)
            out.append(sradar('radar|%s|retry-now' % name, [done] if done else [], k, {'table': tbl_before, 'table2': full_tbl},
                              retry=True, disconnect='retry', after=rest, n_after=3 - k, partial=part, send_now=True))
        if done + part:
            out.append(s1090('1090|%s' % name, [done + part], ['L1', 'L2', 'L3'][:k], fd, close=True, allow_unknown=True,
                             close_gap=g))
    parts['disconnect points (after k=0..3 lines; mid-line after k=0..2 lines + {1,2,3,30} bytes, close at once / after a read timeout) x retry off/on (radar), 1090 EOF'] = len(out) - n0
    return out, parts


ASSUMPTIONS = [
    'black box: the real 1090 (pipes) and radar (pty) binaries against a fake TCP server on 127.0.0.1',
    "synchronisation is causal, never a sleep: terminal input counts as delivered when /proc/<pid>/io:rchar of the subject grew by the bytes written; feed bytes when the subject's TCP acknowledged them (TIOCOUTQ == 0); a heartbeat (ESC[?25l) counts as emitted after an injection when its offset in the output stream exceeds /proc/<pid>/io:wchar read after the injection; consumed feed lines are bounded by one per such heartbeat",
    'radar timeout gap = (complete lines in the segment + 2) heartbeats emitted after the segment landed, nothing sent meanwhile (the last of them follows a 50 ms read timeout on the partial line)',
    '1090 timeout gap = 250 ms (5x the read timeout, as specified) AND the subject blocked in recv() 3 more times (voluntary context switches in /proc/<pid>/status), or sits in one blocking recv() for 0.5 s (a subject without a read timeout: the gap is then simply a delay)',
    'radar table oracle = vh feed2table (real decoder + real tracker) on the feed bytes; CRLF line: processed or skipped both accepted',
    "1090 renderings are compared with the library's own text rendering of each frame (vh render: real decoder + Display; the rendering itself is judged by C11)",
    '1090 "alive after EOF" is observed 300 ms after the close (a later crash would be missed, never invented)',
    'a violation is reported only if two further replays of the same script give the same observation',
    'outside the bound: >2 cuts, gaps shorter than the read timeout other than 0, feeds other than the 3-line feed, IPv6',
]


def run(tier):
    fd = Feed()
    reference_blocks(fd)
    scripts, parts = enumerate_scripts(tier, fd)
    # the radar no-gap control is the cuts=none script (single send)
    ex = e4lib.Explorer('C16', tier)
    try:
        ex.run(scripts)
        cov = {'exhaustive': not ex.machinery,
               'bound': {'feed_bytes': len(fd.feed), 'feed': [l.decode().strip() for l in fd.L], 'parts': parts,
                         'malformed_alphabet': [m[0] for m in fd.malformed()]},
               'rule': 'one script per (client, schedule): cut set / malformed letter x position x timing / disconnect point x retry; '
                       'distinct = distinct script key; non-trivial = the subject ran to its oracle (sentinel echoed, table read, or process death observed)',
               'caps_hit': []}
        return ex.report('fault_enumeration', cov, ASSUMPTIONS)
    finally:
        ex.close()
