"""Minimal VT screen model for the E4 explorer.

Reconstructs the character grid that a terminal would show from the byte stream ratatui/crossterm
write to the pty.  Supported: UTF-8 cells, CR/LF/BS/TAB, CUP (H/f), CUU/CUD/CUF/CUB, CHA (G), VPA (d),
ED (J), EL (K), ECH (X), SGR (ignored), DEC private modes (?..h / ?..l, recorded), OSC (skipped),
ESC 7/8 (save/restore cursor).  Everything else is parsed and ignored.

`hb` counts occurrences of `ESC[?25l` (ratatui hides the cursor at the end of every draw): the
heartbeat the explorer synchronises on.  `hb_grid` is a copy of the grid taken at the last
heartbeat, i.e. a complete frame (never a half-drawn one).
"""

import codecs

HEARTBEAT_MODE = 25


class Screen:
    def __init__(self, cols, rows):
        self.cols = max(1, cols)
        self.rows = max(1, rows)
        self.grid = [[' '] * self.cols for _ in range(self.rows)]
        self.cx = 0
        self.cy = 0
        self.saved = (0, 0)
        self.modes = {}          # DEC private mode -> bool (last set/reset seen)
        self.mode_log = []       # [(mode, bool)] in order of appearance
        self.hb = 0
        self.hb_grid = None
        self.hb_size = (self.cols, self.rows)
        self._state = 0          # 0 ground, 1 esc, 2 csi, 3 osc, 4 osc-esc, 5 charset
        self._params = ''
        self._dec = codecs.getincrementaldecoder('utf-8')(errors='replace')
        self.bytes_seen = 0
        self.pending_wrap = False

    # -- geometry ---------------------------------------------------------------------------
    def resize(self, cols, rows):
        cols = max(1, cols)
        rows = max(1, rows)
        g = [[' '] * cols for _ in range(rows)]
        for y in range(min(rows, self.rows)):
            for x in range(min(cols, self.cols)):
                g[y][x] = self.grid[y][x]
        self.grid = g
        self.cols, self.rows = cols, rows
        self.cx = min(self.cx, cols - 1)
        self.cy = min(self.cy, rows - 1)
        self.pending_wrap = False

    # -- feeding ----------------------------------------------------------------------------
    def feed(self, data):
        self.bytes_seen += len(data)
        for ch in self._dec.decode(data):
            self._char(ch)

    def _char(self, ch):
        st = self._state
        if st == 0:
            o = ord(ch)
            if o == 0x1b:
                self._state = 1
            elif o >= 0x20 and o != 0x7f:
                self._put(ch)
            elif ch == '\r':
                self.cx = 0
                self.pending_wrap = False
            elif ch == '\n' or o == 0x0b or o == 0x0c:
                self._lf()
            elif ch == '\b':
                if self.cx > 0:
                    self.cx -= 1
                self.pending_wrap = False
            elif ch == '\t':
                self.cx = min(self.cols - 1, (self.cx // 8 + 1) * 8)
        elif st == 1:
            if ch == '[':
                self._state = 2
                self._params = ''
            elif ch == ']':
                self._state = 3
            elif ch in '()*+':
                self._state = 5
            elif ch == '7':
                self.saved = (self.cx, self.cy)
                self._state = 0
            elif ch == '8':
                self.cx, self.cy = self.saved
                self._state = 0
            elif ch == 'c':
                self.grid = [[' '] * self.cols for _ in range(self.rows)]
                self.cx = self.cy = 0
                self._state = 0
            elif ch == '\x1b':
                self._state = 1
            else:
                self._state = 0
        elif st == 2:
            if '\x40' <= ch <= '\x7e':
                self._csi(self._params, ch)
                self._state = 0
            elif ch == '\x1b':
                self._state = 1
            else:
                self._params += ch
        elif st == 3:
            if ch == '\x07':
                self._state = 0
            elif ch == '\x1b':
                self._state = 4
        elif st == 4:
            self._state = 0 if ch == '\\' else 3
        elif st == 5:
            self._state = 0

    def _lf(self):
        self.pending_wrap = False
        if self.cy < self.rows - 1:
            self.cy += 1
        else:
            self.grid.pop(0)
            self.grid.append([' '] * self.cols)

    def _put(self, ch):
        if self.pending_wrap:
            self.cx = 0
            self._lf()
        self.grid[self.cy][self.cx] = ch
        if self.cx < self.cols - 1:
            self.cx += 1
        else:
            self.pending_wrap = True

    def _nums(self, params, default):
        out = []
        for p in params.split(';'):
            p = p.split(':')[0]
            try:
                out.append(int(p))
            except ValueError:
                out.append(default)
        return out

    def _csi(self, params, final):
        if params.startswith('?'):
            if final in 'hl':
                on = final == 'h'
                for n in self._nums(params[1:], 0):
                    self.modes[n] = on
                    self.mode_log.append((n, on))
                    if n == HEARTBEAT_MODE and not on:
                        self.hb += 1
                        self.hb_grid = [row[:] for row in self.grid]
                        self.hb_size = (self.cols, self.rows)
            return
        if params[:1] in ('>', '<', '='):
            return
        if final == 'm':
            return
        self.pending_wrap = False
        if final in 'Hf':
            n = self._nums(params, 1) if params else [1, 1]
            r = n[0] if n and n[0] > 0 else 1
            c = n[1] if len(n) > 1 and n[1] > 0 else 1
            self.cy = min(self.rows - 1, r - 1)
            self.cx = min(self.cols - 1, c - 1)
        elif final == 'A':
            self.cy = max(0, self.cy - max(1, self._nums(params, 1)[0]))
        elif final == 'B':
            self.cy = min(self.rows - 1, self.cy + max(1, self._nums(params, 1)[0]))
        elif final == 'C':
            self.cx = min(self.cols - 1, self.cx + max(1, self._nums(params, 1)[0]))
        elif final == 'D':
            self.cx = max(0, self.cx - max(1, self._nums(params, 1)[0]))
        elif final == 'G':
            self.cx = min(self.cols - 1, max(1, self._nums(params, 1)[0]) - 1)
        elif final == 'd':
            self.cy = min(self.rows - 1, max(1, self._nums(params, 1)[0]) - 1)
        elif final == 'J':
            n = self._nums(params, 0)[0] if params else 0
            if n == 0:
                self._clear_line(self.cy, self.cx, self.cols)
                for y in range(self.cy + 1, self.rows):
                    self._clear_line(y, 0, self.cols)
            elif n == 1:
                for y in range(0, self.cy):
                    self._clear_line(y, 0, self.cols)
                self._clear_line(self.cy, 0, self.cx + 1)
            else:
                for y in range(self.rows):
                    self._clear_line(y, 0, self.cols)
        elif final == 'K':
            n = self._nums(params, 0)[0] if params else 0
            if n == 0:
                self._clear_line(self.cy, self.cx, self.cols)
            elif n == 1:
                self._clear_line(self.cy, 0, self.cx + 1)
            else:
                self._clear_line(self.cy, 0, self.cols)
        elif final == 'X':
            n = max(1, self._nums(params, 1)[0])
            self._clear_line(self.cy, self.cx, min(self.cols, self.cx + n))

    def _clear_line(self, y, x0, x1):
        row = self.grid[y]
        for x in range(x0, min(x1, self.cols)):
            row[x] = ' '

    # -- reading ----------------------------------------------------------------------------
    def lines(self, at_heartbeat=True):
        g = self.hb_grid if (at_heartbeat and self.hb_grid is not None) else self.grid
        return [''.join(r).rstrip() for r in g]

    def text(self, at_heartbeat=True):
        return '\n'.join(self.lines(at_heartbeat))


def selftest():
    s = Screen(10, 3)
    s.feed(b'\x1b[2J\x1b[1;1Hab\x1b[2;3H\xe2\x80\xa2x\x1b[38;5;2mZ\x1b[0m\x1b[?25l')
    assert s.hb == 1
    assert s.lines() == ['ab', '  •xZ', ''], s.lines()
    s.feed(b'\x1b[2;1H\x1b[K\x1b[?1000h\x1b[?1000l\x1b[?25h')
    assert s.lines(False) == ['ab', '', '']
    assert s.lines(True) == ['ab', '  •xZ', '']
    assert s.modes[1000] is False and s.modes[25] is True
    s.resize(4, 2)
    s.feed(b'\x1b[2;4HQ')
    assert s.lines(False) == ['ab', '   Q']
    return True


if __name__ == '__main__':
    print(selftest())
