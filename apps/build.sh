#!/usr/bin/env bash
# Build the E4 subjects (radar, 1090) from /repo's current working tree, offline.
#   output: /verif/target/apps/release/{radar,1090}
# exit 0 ok / 2 build failure (prints MACHINERY: ...)
set -u
ROOT="$(cd "$(dirname "${BASH_SOURCE[0]}")/.." && pwd)"
REPO="${VERIF_REPO:-/repo}"
export CARGO_NET_OFFLINE=true
export CARGO_TERM_COLOR=never
mkdir -p "$ROOT/target"
# E4_TARGET_DIR / VERIF_REPO exist only for mutation demonstrations on a scratch copy of the repository
TDIR="${E4_TARGET_DIR:-$ROOT/target/apps}"
LOG="$ROOT/target/build_apps.log"
( cd "$REPO" && CARGO_TARGET_DIR="$TDIR" cargo build --release --offline -p rsadsb_apps >"$LOG" 2>&1 ) || {
  echo "MACHINERY: apps build failed (see $LOG)"; tail -30 "$LOG"; exit 2; }
for b in radar 1090; do
  [ -x "$TDIR/release/$b" ] || { echo "MACHINERY: $TDIR/release/$b missing after build"; exit 2; }
done
if [ ! -x "$ROOT/target/h/release/vh" ]; then
  ( cd "$ROOT/harness" && CARGO_TARGET_DIR="$ROOT/target/h" cargo build --release --offline >"$ROOT/target/build_h.log" 2>&1 ) || {
    echo "MACHINERY: harness (vh) build failed (see $ROOT/target/build_h.log)"; tail -30 "$ROOT/target/build_h.log"; exit 2; }
fi
exit 0
